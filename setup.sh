#!/bin/sh
# Offline setup: the framework is pure Python; only optional helper packages are
# installed (jsonschema for evidence validation, atheris for the fuzz tier).
HERE="$(cd "$(dirname "$0")" && pwd)"
cd "$HERE" || exit 1
PY=/venv/bin/python
W=/opt/veriftools/wheels
mkdir -p .deps out
$PY -c "import hypothesis" 2>/dev/null || /venv/bin/pip install -q --no-index --find-links $W hypothesis || exit 1
for pkg in jsonschema atheris mpmath; do
  PYTHONPATH="$HERE/.deps" $PY -c "import $pkg" 2>/dev/null || \
    /venv/bin/pip install -q --no-index --find-links $W --target .deps $pkg 2>/dev/null || echo "optional package $pkg not installed"
done
$PY -c "import numpy, hypothesis, sys; sys.path.insert(0,'/repo'); import ahrs; print('setup ok', numpy.__version__, hypothesis.__version__, ahrs.__file__)"
