#!/venv/bin/python
"""Development aid: worst recovery distance / tolerance of C13 per (filter, zeroed-sensor class) on the tree under AHRS_REPO.
usage: ./check-env tools/calibrate_c13.py [seeds] [cases per seed]   (run through `sh -c '. ./check ...'` is not needed:
       PYTHONPATH=/repo:/verif /venv/bin/python tools/calibrate_c13.py 8 1500)"""
import collections
import json
import multiprocessing as mp
import sys


class Ctx:
    def __init__(self):
        self.fails = []

    def label(self, *a): pass
    def nt(self, *a): pass
    def exclude(self, *a): pass
    def target(self, *a): pass

    def fail(self, bucket, msg):
        self.fails.append((bucket, msg))


def work(args):
    sd, n = args
    from hypothesis import given, settings, seed, HealthCheck, Phase
    from vf.props import c13
    out, ctx = [], Ctx()

    @seed(sd)
    @settings(max_examples=n, database=None, deadline=None, phases=[Phase.generate], suppress_health_check=list(HealthCheck))
    @given(c13._case('quick'))
    def t(case):
        c13.evaluate(case, ctx, calibrate=out)
    t()
    return out, [b for b, _ in ctx.fails]


if __name__ == '__main__':
    seeds = int(sys.argv[1]) if len(sys.argv) > 1 else 8
    n = int(sys.argv[2]) if len(sys.argv) > 2 else 1500
    with mp.get_context('spawn').Pool(16) as pool:
        res = pool.map(work, [(1000 + i, n) for i in range(seeds)])
    worst = collections.defaultdict(list)
    fails = collections.Counter()
    for out, fl in res:
        for key, which, w, rho in out:
            worst[(key, which if key.startswith('Mahony') else which.split('|')[0])].append(w/rho)
        fails.update(fl)
    for k in sorted(worst):
        v = sorted(worst[k])
        print(f'{k[0]:22s} {k[1]:14s} n={len(v):5d} max={v[-1]:.3e} p99={v[int(0.99*(len(v)-1))]:.3e} median={v[len(v)//2]:.3e}')
    print(json.dumps(fails, indent=1))
