#!/venv/bin/python
"""Regenerates MANIFEST.json from the property modules that exist.
Every property in properties.jsonl without a module is listed under not_applicable
with the reason given in PENDING (kept current by hand)."""
import importlib
import json
import os
import sys

HERE = os.path.dirname(os.path.dirname(os.path.abspath(__file__)))
sys.path.insert(0, HERE)
sys.path.insert(0, '/repo')

PENDING_REASON = 'no check registered yet: the generated-input check for this property is still being built (not a limit of the technique)'

props = [json.loads(l) for l in open(os.path.join(HERE, 'properties.jsonl'))]
checks, na = [], []
for p in props:
    pid = p['id']
    path = os.path.join(HERE, 'vf', 'props', pid.lower() + '.py')
    if not os.path.exists(path):
        na.append({'property_id': pid, 'reason': PENDING_REASON})
        continue
    mod = importlib.import_module(f'vf.props.{pid.lower()}')
    if getattr(mod, 'NOT_READY', False):
        na.append({'property_id': pid, 'reason': PENDING_REASON})
        continue
    checks.append({
        'property_id': pid,
        'quick_cmd': f'./check {pid} --tier quick',
        'thorough_cmd': f'./check {pid} --tier thorough',
        'evidence_file': f'evidence/{pid}.json',
        'replay_cmd_template': f'./check {pid} --replay {{path}}',
        'engine': 'vf',
        'level_claimed': {
            'category': getattr(mod, 'LEVEL', 'exploration'),
            'text': getattr(mod, 'LEVEL_TEXT', 'Generated-input search (Hypothesis, 16 seeded shards) against an explicit independent oracle; '
                            'no counter-example among the cases counted in the evidence file. Not a proof of absence.'),
            'design_ref': f'DESIGN.md section 3, {pid}',
        },
        'level_note': getattr(mod, 'LEVEL_NOTE', 'Trusts vf/oracle.py (self-tested at start-up), NumPy float64 and the stated tolerances; '
                              'coverage is what evidence/<id>.json counts, nothing more.'),
        'technique': getattr(mod, 'TECHNIQUE', 'property-based testing (Hypothesis) against an independent oracle'),
    })

manifest = {
    'version': 1,
    'setup_cmd': './setup.sh',
    'hooks': {
        'guard': 'AHRS_VERIF',
        'enable': 'no guarded hooks exist: every observation point is a public return value or the bytes of an argument; '
                  'checks import /repo/ahrs directly in a fresh interpreter (./check sets AHRS_VERIF=1 for uniformity)',
        'baseline_off_cmd': 'cd /repo && /venv/bin/python -m pytest -ra -q -p no:cacheprovider --timeout=900 --continue-on-collection-errors',
        'source_commits': [],
        'add_only': True,
    },
    'engines': [{
        'name': 'vf',
        'path': 'vf/',
        'serves_properties': [c['property_id'] for c in checks],
        'kind_free_text': 'Hypothesis-driven property-based testing with bucketed collect-then-shrink, 16 seeded shards, '
                          'independent oracles in vf/oracle.py, replay files, known-findings file',
    }],
    'checks': checks,
    'not_applicable': na,
    'notes': 'Exit 0 = held on everything explored (KNOWN-FINDING lines for listed open findings); exit 1 + VIOLATION line = '
             'new violation; exit 2 = harness error (never a violation). VERIF_SEED selects the seed; AHRS_REPO (default /repo) '
             'selects the tree under test.',
}
fixes = os.path.join(HERE, 'repo_commits.json')
if os.path.exists(fixes):
    manifest['hooks']['source_commits'] = json.load(open(fixes)).get('hooks', [])
with open(os.path.join(HERE, 'MANIFEST.json'), 'w') as f:
    json.dump(manifest, f, indent=1)
try:
    sys.path.insert(0, os.path.join(HERE, '.deps'))
    import jsonschema
    jsonschema.validate(manifest, json.load(open('/root/.vp/MANIFEST.schema.json')))
    print('MANIFEST.json valid:', len(checks), 'checks,', len(na), 'not yet claimed')
except ImportError:
    print('jsonschema not available; wrote MANIFEST.json unvalidated')
