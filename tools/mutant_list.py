"""Mutants for the sensitivity protocol (DESIGN §2.6).  Purely textual."""
Q = 'ahrs/common/quaternion.py'
O = 'ahrs/common/orientation.py'
D = 'ahrs/common/dcm.py'

MUTANTS = [
    # ---- C01
    dict(id='c01-quat-toDCM-sign', props=['C01'], file=Q,
         old='[2.0*(self.x*self.y+self.w*self.z), 1.0-2.0*(self.x**2+self.z**2), 2.0*(self.y*self.z-self.w*self.x)],',
         new='[2.0*(self.x*self.y+self.w*self.z), 1.0-2.0*(self.x**2+self.z**2), 2.0*(self.y*self.z+self.w*self.x)],'),
    dict(id='c01-qarray-toDCM-swap', props=['C01', 'C07'], file=Q,
         old='R[:, 1, 0] = 2.0*(self.x*self.y+self.w*self.z)\n        R[:, 2, 0] = 2.0*(self.x*self.z-self.w*self.y)\n        R[:, 0, 1] = 2.0*(self.x*self.y-self.w*self.z)',
         new='R[:, 0, 1] = 2.0*(self.x*self.y+self.w*self.z)\n        R[:, 2, 0] = 2.0*(self.x*self.z-self.w*self.y)\n        R[:, 1, 0] = 2.0*(self.x*self.y-self.w*self.z)'),
    dict(id='c01-dcm-from_quaternion-batch-sign', props=['C01', 'C07'], file=D,
         old='R[:, 1, 2] = 2.0*(q[:, 2]*q[:, 3]-q[:, 0]*q[:, 1])', new='R[:, 1, 2] = 2.0*(q[:, 2]*q[:, 3]+q[:, 0]*q[:, 1])'),
    dict(id='c01-q2R-v2-diag', props=['C01'], file=O,
         old='[2.0*(q[1]*q[3]-q[0]*q[2]), 2.0*(q[0]*q[1]+q[2]*q[3]), q[0]**2-q[1]**2-q[2]**2+q[3]**2]])',
         new='[2.0*(q[1]*q[3]-q[0]*q[2]), 2.0*(q[0]*q[1]+q[2]*q[3]), q[0]**2-q[1]**2-q[2]**2-q[3]**2]])'),
    dict(id='c01-q_rot-forward', props=['C01'], file=O,
         old='-2.0*v[0]*(qy**2 + qz**2 - 0.5) + 2.0*v[1]*(qw*qz + qx*qy)       - 2.0*v[2]*(qw*qy - qx*qz),',
         new='-2.0*v[0]*(qy**2 + qz**2 - 0.5) - 2.0*v[1]*(qw*qz - qx*qy)       + 2.0*v[2]*(qw*qy + qx*qz),'),
    dict(id='c01-product-sign', props=['C01', 'C09'], file=Q,
         old='self.w*qy - self.x*qz + self.y*qw + self.z*qx,', new='self.w*qy + self.x*qz + self.y*qw - self.z*qx,'),
    dict(id='c01-q2R-v1-batch-small-w', props=['C01'], file=O,
         old='R[:, 1, 0] = 2.0*(q[:, 1]*q[:, 2]+q[:, 0]*q[:, 3])',
         new='R[:, 1, 0] = 2.0*(q[:, 1]*q[:, 2]+np.where(np.abs(q[:, 0])<1e-9, 0.0, q[:, 0])*q[:, 3])'),
    # ---- C09
    dict(id='c09-mult_R-block', props=['C09'], file=Q,
         old='[self.x,  self.w,  self.z, -self.y],\n            [self.y, -self.z,  self.w,  self.x],',
         new='[self.x,  self.w, -self.z,  self.y],\n            [self.y, -self.z,  self.w,  self.x],'),
    dict(id='c09-conj-S-last', props=['C09'], file=Q,
         old="return self.A*np.array([1.0, -1.0, -1.0, -1.0]) if self.scalar_vector else self.A*np.array([-1.0, -1.0, -1.0, 1.0])",
         new="return self.A*np.array([1.0, -1.0, -1.0, -1.0])"),
    dict(id='c09-matmul-reversed', props=['C09', 'C01'], file=Q,
         old="        return self.product(q)\n\n    def __pow__", new="        return Quaternion(q, versor=False).product(self)\n\n    def __pow__"),
    dict(id='c09-S-x-property', props=['C09'], file=Q,
         old="return self.A[2] if self.scalar_vector else self.A[1]", new="return self.A[2] if self.scalar_vector else self.A[2]"),
    dict(id='c09-inverse-versor-unconj', props=['C09'], file=Q,
         old="        if self.is_versor():\n            return self.conjugate\n        return self.conjugate / np.linalg.norm(self.A)",
         new="        if self.is_versor():\n            return self.conjugate if abs(self.w) > 1e-6 else self.A\n        return self.conjugate / np.linalg.norm(self.A)"),
    dict(id='c09-q_prod-term', props=['C09', 'C01'], file=O,
         old='pq[3] = p[0]*q[3] + p[1]*q[2] - p[2]*q[1] + p[3]*q[0]', new='pq[3] = p[0]*q[3] + p[1]*q[2] - p[2]*q[1] + p[0]*q[3]'),
]
