#!/venv/bin/python
"""Sensitivity (mutation) protocol of DESIGN §2.6.

usage: tools/mutants.py [--prop C01] [--name substr] [--no-tests] [--tier quick]

Each mutant is (id, property list, file, old text, new text).  For every selected
mutant: copy /repo's tracked tree to a scratch directory outside /repo and /verif,
apply the textual replacement (must match exactly once unless count given), run the
repository's own test suite there (a mutant that fails it is not "realistic"), run
the listed checks with AHRS_REPO pointing at the scratch tree, and report
killed/survived.  The scratch directory is removed afterwards.  Results are
appended to out/mutants.jsonl.
"""
import argparse
import json
import os
import shutil
import subprocess
import sys
import tempfile
import time

HERE = os.path.dirname(os.path.dirname(os.path.abspath(__file__)))
sys.path.insert(0, HERE)
from tools.mutant_list import MUTANTS  # noqa: E402


def make_scratch():
    d = tempfile.mkdtemp(prefix='ahrs-mut-', dir=os.environ.get('TMPDIR', '/tmp'))
    subprocess.run(f'git -C /repo ls-files -z ahrs tests pyproject.toml | (cd /repo && xargs -0 cp --parents -t {d})',
                   shell=True, check=True)
    return d


def apply(d, m):
    if 'edits' in m:
        for e in m['edits']:
            apply(d, dict(e, id=m['id']))
        return
    path = os.path.join(d, m['file'])
    src = open(path).read()
    cnt = src.count(m['old'])
    want = m.get('count', 1)
    if cnt != want:
        raise SystemExit(f"mutant {m['id']}: pattern occurs {cnt}x in {m['file']}, expected {want}")
    if 'nth' in m:
        parts = src.split(m['old'])
        k = m['nth']
        src = m['old'].join(parts[:k+1]) + m['new'] + m['old'].join(parts[k+1:])
    else:
        src = src.replace(m['old'], m['new'])
    open(path, 'w').write(src)


def run_tests(d):
    r = subprocess.run(['/venv/bin/python', '-m', 'pytest', '-q', '-x', '-p', 'no:cacheprovider', '-n', '8', 'tests'],
                       cwd=d, capture_output=True, text=True,
                       env=dict(os.environ, PYTHONPATH=d, PYTHONDONTWRITEBYTECODE='1'))
    tail = (r.stdout.strip().splitlines() or [''])[-1]
    return r.returncode == 0, tail


def run_check(d, prop, tier, seed):
    t0 = time.time()
    r = subprocess.run([os.path.join(HERE, 'check'), prop, '--tier', tier, '--seed', str(seed)],
                       capture_output=True, text=True,
                       env=dict(os.environ, AHRS_REPO=d, VERIF_NO_SHRINK=os.environ.get('VERIF_NO_SHRINK', '1'),
                                VERIF_EVIDENCE_DIR=os.path.join(d, '_evidence')))
    viol = [ln for ln in r.stdout.splitlines() if ln.startswith('VIOLATION')]
    buckets = [ln.strip() for ln in r.stdout.splitlines() if ln.strip().startswith('bucket=')]
    return r.returncode, viol, buckets, time.time() - t0, r.stderr[-500:]


def main():
    ap = argparse.ArgumentParser()
    ap.add_argument('--prop')
    ap.add_argument('--name')
    ap.add_argument('--no-tests', action='store_true')
    ap.add_argument('--tier', default='quick')
    ap.add_argument('--seed', default='1')
    ap.add_argument('--resume', action='store_true', help='skip (mutant, property) pairs already in the log')
    a = ap.parse_args()
    sel = [m for m in MUTANTS if (not a.prop or a.prop in m['props']) and (not a.name or a.name in m['id'])]
    os.makedirs(os.path.join(HERE, 'out'), exist_ok=True)
    log_path = os.environ.get('VERIF_MUTANT_LOG') or os.path.join(HERE, 'out', 'mutants.jsonl')
    done = set()
    if a.resume and os.path.exists(log_path):
        done = {(json.loads(ln)['mutant'], json.loads(ln)['property']) for ln in open(log_path)}
    for m in sel:
        if a.resume and all((m['id'], p_) in done for p_ in m['props'] if not a.prop or p_ == a.prop):
            continue
        d = make_scratch()
        try:
            try:
                apply(d, m)
            except (SystemExit, AssertionError, ValueError) as e:   # pattern not found: the source moved on; say so, go on with the others
                print(f"{m['id']:45s} NOT-APPLICABLE {e}")
                continue
            tests_ok, tail = (None, 'skipped') if a.no_tests else run_tests(d)
            for prop in m['props']:
                if a.prop and prop != a.prop:
                    continue
                rc, viol, buckets, secs, err = run_check(d, prop, a.tier, a.seed)
                status = 'KILLED' if rc == 1 and viol else ('HARNESS-ERROR' if rc == 2 else 'SURVIVED')
                rec = {'mutant': m['id'], 'property': prop, 'tests_pass': tests_ok, 'tests_tail': tail,
                       'status': status, 'seconds': round(secs, 1), 'buckets': buckets[:6], 'tier': a.tier}
                print(f"{m['id']:45s} {prop} tests={'pass' if tests_ok else tests_ok} {status} {secs:.0f}s {buckets[:2]}")
                if rc == 2:
                    print(err)
                with open(os.environ.get('VERIF_MUTANT_LOG') or os.path.join(HERE, 'out', 'mutants.jsonl'), 'a') as f:
                    f.write(json.dumps(rec) + '\n')
        finally:
            shutil.rmtree(d, ignore_errors=True)


if __name__ == '__main__':
    main()
