#!/venv/bin/python
"""Regenerates the tables of DESIGN.md section 6 (between the BEGIN/END markers) from
  - a mutant log (default sensitivity/mutants.jsonl, the committed log of the last full run of tools/mutants.py; pass another path as argv[1]) and
  - seeded/*/meta.json."""
import collections
import glob
import json
import os
import sys

HERE = os.path.dirname(os.path.dirname(os.path.abspath(__file__)))
sys.path.insert(0, HERE)
from tools.mutant_list import MUTANTS  # noqa: E402

log = sys.argv[1] if len(sys.argv) > 1 else os.path.join(HERE, 'sensitivity', 'mutants.jsonl')
latest = {}
if os.path.exists(log):
    for ln in open(log):
        r = json.loads(ln)
        latest[(r['mutant'], r['property'])] = r
out = []
out.append('### 6.1 Own mutants (tools/mutants.py, quick tier, seed 1)\n')
byprop = collections.defaultdict(list)
for m in MUTANTS:
    for p in m['props']:
        byprop[p].append(m['id'])
out.append('| property | mutants | killed | survive the 250 repo tests (and are killed) | median seconds to kill |')
out.append('|---|---|---|---|---|')
tot = [0, 0, 0]
for p in sorted(byprop):
    rs = [latest.get((mid, p)) for mid in byprop[p]]
    rs = [r for r in rs if r]
    killed = [r for r in rs if r['status'] == 'KILLED']
    realistic = [r for r in killed if r.get('tests_pass')]
    secs = sorted(r['seconds'] for r in killed)
    med = secs[len(secs)//2] if secs else 0
    out.append(f'| {p} | {len(byprop[p])} | {len(killed)}/{len(rs)} run | {len(realistic)} | {med:.0f} |')
    tot[0] += len(byprop[p]); tot[1] += len(killed); tot[2] += len(realistic)
out.append(f'| all | {tot[0]} | {tot[1]} | {tot[2]} | |')
surv = [r for r in latest.values() if r['status'] != 'KILLED']
out.append('')
if surv:
    out.append('Survivors in the last run: ' + ', '.join(f"{r['mutant']} ({r['property']}: {r['status']})" for r in surv) + '.')
    if any(r['mutant'] == 'c13-madgwick-null-mag-freezes' for r in surv):
        out.append('`c13-madgwick-null-mag-freezes` switches Madgwick\'s correction off for good at the first null magnetometer sample.  With the exact '
                   'gyroscope of C13\'s trajectories the filter then dead-reckons along the truth, so the change only shows when a *later* outage '
                   'freezes the gyroscope long enough to leave more than the 0.025 rad recovery tolerance behind; that happens in about one '
                   'schedule in 24 000 (measured with tools/calibrate_c13.py on the mutated tree), i.e. C13 kills it at some seeds only.  It was '
                   'killed while the tolerance was a flat 0.01 rad; that constant was a false alarm for non-default gains (section 5.3).  Kept as '
                   'a survivor: a limitation of a trajectory whose only disturbances are the outages themselves.')
else:
    out.append('No survivor in the last full run.  Mutants that turned out to be equivalent or inside the property are kept as comments in '
               '`tools/mutant_list.py` with the reason (e.g. Madgwick without its final renormalisation: `Quaternion.__add__` already '
               'returns a versor; `DCM(R1.T@R2)` in `angular_distance`: same rotation angle; Mahony without its null-accelerometer guard: the '
               'NaN state is refused with ValueError on the next update, which C13 allows).')
out.append('\n### 6.2 Independently written breaking changes (sub-agents that saw only the property text)\n')
out.append('Each change is kept under `seeded/<name>/` (patch.diff, demo.py, meta.txt from its author, meta.json from `tools/seeded.py`): '
           'the patch applies to /repo HEAD, the 250 repository tests still pass with it, its demonstration exits 0 on /repo and 1 on the '
           'patched tree, and the quick check of the property was run against the patched tree (`AHRS_REPO=<scratch worktree>`).\n')
out.append('| seeded change | property | needs, to manifest | detected by (quick, seed 1) | seconds | first evaluation |')
out.append('|---|---|---|---|---|---|')
for mj in sorted(glob.glob(os.path.join(HERE, 'seeded', '*', 'meta.json'))):
    m = json.load(open(mj))
    det = [f"{c['property']}" for c in m.get('checks', []) if c.get('detected')]
    miss = [f"{c['property']}" for c in m.get('checks', []) if not c.get('detected')]
    secs = [c['seconds'] for c in m.get('checks', []) if c['property'] == m['property']]
    note = ', '.join(det) + ((' (not: ' + ', '.join(miss) + ')') if miss else '')
    ok = m.get('tests_pass') and m.get('demo_exit_on_repo') == 0 and m.get('demo_exit_on_patched') not in (0, None)
    out.append(f"| {m['name']}{'' if ok else ' (NOT CONFIRMED)'} | {m['property']} | {m.get('needs_to_manifest', '')} | {note} | {secs[0] if secs else ''} | {m.get('first_evaluation', 'caught by the check as it stood')} |")
text = '\n'.join(out) + '\n'
p = os.path.join(HERE, 'DESIGN.md')
s = open(p).read()
b, e = '<!-- BEGIN GENERATED SECTION 6 -->', '<!-- END GENERATED SECTION 6 -->'
if b in s:
    s = s[:s.index(b) + len(b)] + '\n' + text + s[s.index(e):]
    open(p, 'w').write(s)
    print('DESIGN.md section 6 regenerated')
else:
    print(text)
