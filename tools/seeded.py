#!/venv/bin/python
"""Confirm and evaluate an independently written breaking change (seeded defect).

usage: tools/seeded.py <name> <property> <source-dir> [--extra-prop Cxx ...] [--what "..."]
   or: tools/seeded.py --recheck [name ...]       re-run the checks against the stored patches

<source-dir> holds patch.diff, demo.py and meta.txt as delivered by a sub-agent.  The change is confirmed in a scratch
git worktree of /repo (outside /repo and /verif, removed afterwards):
  1. patch applies to the current /repo HEAD,
  2. the repository's own test suite still passes with it,
  3. the demonstration exits 0 on /repo and non-zero on the patched tree,
  4. the registered quick check(s) of the property are run with AHRS_REPO pointing at the patched tree.
Everything is recorded in seeded/<name>/meta.json.  Nothing is ever applied to /repo itself by this tool.
"""
import argparse
import json
import os
import shutil
import subprocess
import sys
import tempfile
import time

HERE = os.path.dirname(os.path.dirname(os.path.abspath(__file__)))


def sh(cmd, **kw):
    return subprocess.run(cmd, shell=True, capture_output=True, text=True, **kw)


def evaluate(name, props, dest, seeds=(1,)):
    wt = tempfile.mkdtemp(prefix='ahrs-seed-', dir='/tmp')
    shutil.rmtree(wt)
    r = sh(f'git -C /repo worktree add -q --detach {wt} HEAD')
    assert r.returncode == 0, r.stderr
    rec = {}
    try:
        r = sh(f'git -C {wt} apply {dest}/patch.diff')
        rec['patch_applies'] = r.returncode == 0
        if not rec['patch_applies']:
            rec['apply_error'] = r.stderr[-400:]
            return rec
        r = sh(f'cd {wt} && PYTHONPATH={wt} /venv/bin/python -m pytest -q -p no:cacheprovider -n 8 tests 2>&1 | tail -1')
        rec['tests_tail'] = r.stdout.strip()
        rec['tests_pass'] = '250 passed' in r.stdout
        demo_dir = tempfile.mkdtemp(prefix='ahrs-demo-', dir='/tmp')
        shutil.copy(os.path.join(dest, 'demo.py'), demo_dir)
        r0 = sh(f'cd {demo_dir} && PYTHONPATH=/repo /venv/bin/python demo.py')
        r1 = sh(f'cd {demo_dir} && PYTHONPATH={wt} /venv/bin/python demo.py')
        shutil.rmtree(demo_dir, ignore_errors=True)
        rec['demo_exit_on_repo'] = r0.returncode
        rec['demo_exit_on_patched'] = r1.returncode
        rec['demo_output_patched_tail'] = (r1.stdout + r1.stderr)[-600:]
        rec['checks'] = []
        for prop in props:
            for seed in seeds:
                t0 = time.time()
                ev = tempfile.mkdtemp(prefix='ev-', dir='/tmp')
                r = sh(f'{HERE}/check {prop} --tier quick --seed {seed}',
                       env=dict(os.environ, AHRS_REPO=wt, VERIF_EVIDENCE_DIR=ev, VERIF_OUT_DIR=ev, VERIF_NO_SHRINK=os.environ.get('VERIF_NO_SHRINK', '1')))
                viol = [ln for ln in r.stdout.splitlines() if ln.startswith('VIOLATION')]
                buckets = [ln.strip()[:300] for ln in r.stdout.splitlines() if ln.strip().startswith('bucket=')]
                rec['checks'].append({'property': prop, 'seed': seed, 'cmd': f'AHRS_REPO=<patched tree> ./check {prop} --tier quick --seed {seed}',
                                      'exit': r.returncode, 'violations': len(viol), 'buckets': buckets[:5], 'seconds': round(time.time()-t0, 1),
                                      'detected': r.returncode == 1 and bool(viol)})
                shutil.rmtree(ev, ignore_errors=True)
    finally:
        sh(f'git -C /repo worktree remove --force {wt}')
        shutil.rmtree(wt, ignore_errors=True)
    return rec


def main():
    ap = argparse.ArgumentParser()
    ap.add_argument('name', nargs='*')
    ap.add_argument('--recheck', action='store_true')
    ap.add_argument('--extra-prop', action='append', default=[])
    ap.add_argument('--what', default='')
    ap.add_argument('--seeds', default='1')
    a = ap.parse_args()
    seeds = tuple(int(s) for s in a.seeds.split(','))
    sd = os.path.join(HERE, 'seeded')
    if a.recheck:
        names = a.name or sorted(os.listdir(sd))
        for n in names:
            dest = os.path.join(sd, n)
            meta = json.load(open(os.path.join(dest, 'meta.json')))
            rec = evaluate(n, [meta['property']] + meta.get('extra_properties', []), dest, seeds)
            meta.update(rec)
            meta['rechecked_at_repo_commit'] = sh('git -C /repo rev-parse --short HEAD').stdout.strip()
            json.dump(meta, open(os.path.join(dest, 'meta.json'), 'w'), indent=1)
            print(n, 'tests_pass', rec.get('tests_pass'), 'demo', rec.get('demo_exit_on_repo'), rec.get('demo_exit_on_patched'),
                  [(c['property'], c['detected'], c['seconds']) for c in rec.get('checks', [])])
        return
    name, prop, src = a.name
    dest = os.path.join(sd, name)
    os.makedirs(dest, exist_ok=True)
    for f in ('patch.diff', 'demo.py', 'meta.txt'):
        shutil.copy(os.path.join(src, f), dest)
    rec = evaluate(name, [prop] + a.extra_prop, dest, seeds)
    meta = {'name': name, 'property': prop, 'extra_properties': a.extra_prop, 'origin': 'independent sub-agent, given only the property text and a scratch worktree',
            'needs_to_manifest': a.what, 'repo_commit': sh('git -C /repo rev-parse --short HEAD').stdout.strip(),
            'what_was_run': 'patch applied in a scratch git worktree of /repo; repository tests (pytest -n 8 tests); demo.py with PYTHONPATH=/repo and with '
                            'PYTHONPATH=<patched tree>; ./check <property> --tier quick with AHRS_REPO=<patched tree>'}
    meta.update(rec)
    json.dump(meta, open(os.path.join(dest, 'meta.json'), 'w'), indent=1)
    print(json.dumps({k: v for k, v in meta.items() if k not in ('demo_output_patched_tail',)}, indent=1)[:2500])


if __name__ == '__main__':
    main()
