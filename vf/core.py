"""Core of the property-checking framework: case context, bucketed collector,
sharded Hypothesis driver, shrinking, replay and evidence writing.

A property module (vf/props/cXX.py) provides

    PROPERTY = 'C01'
    LEVEL    = 'exploration'
    RULE     = '...'           # generator + non-triviality rule, in words
    ASSUMPTIONS = [...]
    SUBCHECKS = {name: Sub(strategy_factory, evaluate, quick=N, thorough=M)}
    (optional) PROBES = [case, ...]      # fixed regression cases run first
    (optional) selftest()                # raises HarnessError if the harness is wrong

`evaluate(case, ctx)` runs the code under test on one JSON-serialisable case
and reports through ctx.fail(bucket, msg); it never raises for a property
violation.  An exception escaping evaluate whose innermost frame lies inside
the ahrs package is itself a finding (bucket `<sub>|exception|<Type>@<file>:<func>`);
any other escaping exception is a harness error (exit 2).
"""
from __future__ import annotations

import hashlib
import importlib
import json
import math
import os
import sys
import time
import traceback
from dataclasses import dataclass, field
from typing import Any, Callable

VERIF_DIR = os.path.dirname(os.path.dirname(os.path.abspath(__file__)))
REPO = os.environ.get('AHRS_REPO', '/repo')
NSHARDS = int(os.environ.get('VERIF_SHARDS', '16'))


class HarnessError(Exception):
    """The check itself is wrong or cannot run (exit code 2, never a violation)."""


class _BudgetStop(BaseException):
    """Raised inside a Hypothesis test body to end generation when the wall budget is used up."""


class _CaseCpuLimit(BaseException):
    """Raised by the SIGPROF watchdog when one case has consumed CASE_CPU_LIMIT seconds of CPU time of its own process
    (not wall clock: machine load or a suspended process cannot trigger it).  BaseException so that neither the property
    code nor the code under test swallows it."""


# A case normally costs between 1 ms and a few seconds of CPU.  Code under test that does not return (a Newton or fixed-point
# loop without an iteration cap) would otherwise hang the whole check; past this limit the case is recorded as a finding.
CASE_CPU_LIMIT = float(os.environ.get('VERIF_CASE_CPU_LIMIT', '60'))


def _on_sigprof(signum, frame):
    raise _CaseCpuLimit()


# --------------------------------------------------------------------------
# JSON helpers (floats are round-trip exact through repr; NaN/inf allowed)

def to_jsonable(x):
    import numpy as np
    if isinstance(x, dict):
        return {str(k): to_jsonable(v) for k, v in x.items()}
    if isinstance(x, (list, tuple)):
        return [to_jsonable(v) for v in x]
    if isinstance(x, np.ndarray):
        if np.iscomplexobj(x):
            return {'complex': True, 're': x.real.tolist(), 'im': x.imag.tolist()}
        return x.tolist()
    if isinstance(x, (np.floating,)):
        x = float(x)
    if isinstance(x, (np.integer,)):
        return int(x)
    if isinstance(x, (np.bool_,)):
        return bool(x)
    if isinstance(x, complex):
        return {'complex': True, 're': x.real, 'im': x.imag}
    if isinstance(x, float) and (x != x or x in (math.inf, -math.inf)):
        return 'NaN' if x != x else ('Infinity' if x > 0 else '-Infinity')
    if isinstance(x, (str, int, float, bool)) or x is None:
        return x
    return repr(x)


_NONFINITE = {'NaN': math.nan, 'Infinity': math.inf, '-Infinity': -math.inf}


def revive(x):
    """Inverse of to_jsonable for the non-finite float tokens."""
    if isinstance(x, dict):
        return {k: revive(v) for k, v in x.items()}
    if isinstance(x, list):
        return [revive(v) for v in x]
    if isinstance(x, str) and x in _NONFINITE:
        return _NONFINITE[x]
    return x


def case_hash(case) -> str:
    s = json.dumps(to_jsonable(case), sort_keys=True, allow_nan=False)
    return hashlib.blake2b(s.encode(), digest_size=8).hexdigest()


# --------------------------------------------------------------------------

@dataclass
class Sub:
    strategy: Callable[[str], Any]          # tier -> hypothesis strategy of cases
    evaluate: Callable[[dict, 'Ctx'], None]
    quick: int = 2000                       # total examples (all shards) per tier
    thorough: int = 100000
    budget_quick: float = 40.0              # wall seconds per shard
    budget_thorough: float = 900.0


@dataclass
class Finding:
    bucket: str
    msg: str
    case: Any
    sub: str
    size: int = 0

    def to_json(self):
        return {'bucket': self.bucket, 'msg': self.msg, 'sub': self.sub, 'case': to_jsonable(self.case)}


class Ctx:
    """Per-case context handed to evaluate()."""

    def __init__(self, sub: str, case, in_hypothesis: bool = False):
        self.sub = sub
        self.case = case
        self.findings: list[Finding] = []
        self.labels: list[str] = []
        self.nontrivial = False
        self.in_hypothesis = in_hypothesis
        self.excluded: list[str] = []

    def fail(self, bucket: str, msg: str = ''):
        self.findings.append(Finding(f'{self.sub}|{bucket}', msg, self.case, self.sub))

    def label(self, *names: str):
        self.labels.extend(names)

    def nt(self, flag: bool = True):
        if flag:
            self.nontrivial = True

    def exclude(self, what: str):
        """Count a case (or part of it) steered away from an open known finding."""
        self.excluded.append(what)

    def target(self, value: float, label: str = ''):
        if self.in_hypothesis and value == value and abs(value) != math.inf:
            try:
                import hypothesis
                hypothesis.target(float(value), label=label)
            except Exception:
                pass

    # convenience: run a call into the code under test; exceptions become findings
    def call(self, route: str, fn, *a, allowed=(), **kw):
        """Returns (ok, value).  Exceptions listed in `allowed` are returned as
        (False, exc) without a finding; all others are recorded."""
        try:
            return True, fn(*a, **kw)
        except allowed as e:   # type: ignore[misc]
            return False, e
        except HarnessError:
            raise
        except Exception as e:
            self.fail(f'{route}|exception|{type(e).__name__}', f'{type(e).__name__}: {e}'[:300])
            return False, e


def _innermost_pkg_frame(tb, anywhere=False) -> str | None:
    frames = traceback.extract_tb(tb)
    if anywhere and frames and frames[-1].name == '_on_sigprof':
        frames = frames[:-1]            # the watchdog's own handler frame sits on top of the interrupted code
    if not frames:
        return None
    last = frames[-1]
    fn = os.path.abspath(last.filename)
    root = os.path.join(os.path.abspath(REPO), 'ahrs') + os.sep
    if fn.startswith(root):
        return f'{os.path.relpath(fn, root)}:{last.name}'
    # numpy frames reached from ahrs (e.g. LinAlgError raised inside numpy.linalg)
    for fr in reversed(frames):
        f2 = os.path.abspath(fr.filename)
        if f2.startswith(root):
            # only if every deeper frame is in a library, not the harness
            deeper = frames[frames.index(fr) + 1:]
            if all(os.path.abspath(d.filename).startswith(VERIF_DIR) is False for d in deeper):
                return f'{os.path.relpath(f2, root)}:{fr.name}'
            break
        if f2.startswith(VERIF_DIR):
            break
    return None


def run_case(mod, sub_name: str, case, in_hypothesis=False, cpu_limit=None) -> Ctx:
    """Evaluate one case; converts escaping package exceptions into findings."""
    import warnings
    import numpy as np
    ctx = Ctx(sub_name, case, in_hypothesis)
    sub = mod.SUBCHECKS[sub_name]
    import signal
    import threading
    limit = CASE_CPU_LIMIT if cpu_limit is None else cpu_limit
    watchdog = limit > 0 and hasattr(signal, 'setitimer') and threading.current_thread() is threading.main_thread()
    if watchdog:
        signal.signal(signal.SIGPROF, _on_sigprof)
        signal.setitimer(signal.ITIMER_PROF, limit)
    try:
        try:
            with warnings.catch_warnings():
                warnings.simplefilter('ignore')
                with np.errstate(all='ignore'):
                    sub.evaluate(case, ctx)
        finally:
            if watchdog:
                signal.setitimer(signal.ITIMER_PROF, 0)
    except _CaseCpuLimit as e:
        where = _innermost_pkg_frame(e.__traceback__, anywhere=True)
        if where is None:
            raise HarnessError(f'{mod.PROPERTY}/{sub_name}: the harness itself used {limit:.0f} s of CPU on one case\n'
                               + ''.join(traceback.format_exception(e))[-3000:] + '\ncase=' + json.dumps(to_jsonable(case))[:2000]) from None
        ctx.fail(f'no_return|cpu_limit@{where}', f'call into {where} had not returned after {limit:.0f} s of CPU time on this case')
    except HarnessError:
        raise
    except Exception as e:
        where = _innermost_pkg_frame(e.__traceback__)
        if where is None:
            raise HarnessError(f'{mod.PROPERTY}/{sub_name}: harness exception {type(e).__name__}: {e}\n'
                               + ''.join(traceback.format_exception(e))[-3000:]
                               + '\ncase=' + json.dumps(to_jsonable(case))[:2000]) from e
        ctx.fail(f'exception|{type(e).__name__}@{where}', f'{type(e).__name__}: {e}'[:300])
    return ctx


# --------------------------------------------------------------------------
# shard worker

def _shard_seed(seed: int, shard: int, sub_name: str) -> int:
    h = hashlib.blake2b(f'{seed}/{shard}/{sub_name}'.encode(), digest_size=8).digest()
    return int.from_bytes(h, 'big') >> 1


def _size_of(case) -> int:
    return len(json.dumps(to_jsonable(case), allow_nan=False))


def shard_worker(args):
    prop, tier, seed, shard, nshards, only_sub = args
    os.environ.setdefault('OMP_NUM_THREADS', '1')
    os.environ.setdefault('OPENBLAS_NUM_THREADS', '1')
    import warnings
    warnings.simplefilter('ignore')
    import hypothesis
    from hypothesis import given, settings, HealthCheck, Phase
    mod = load_property(prop)
    out = {
        'evaluations': 0, 'nt_hashes': set(), 'labels': {}, 'buckets': {}, 'samples': [],
        'label_samples': {}, 'excluded': {}, 'budget_hit': False, 'per_sub': {}, 'harness_error': None,
    }
    try:
        for sub_name, sub in mod.SUBCHECKS.items():
            if only_sub and sub_name != only_sub:
                continue
            total = sub.quick if tier == 'quick' else sub.thorough
            scale = float(os.environ.get('VERIF_SCALE', '1'))
            n = max(1, int(math.ceil(total * scale / nshards)))
            budget = (sub.budget_quick if tier == 'quick' else sub.budget_thorough) * max(1.0, scale) * float(os.environ.get('VERIF_BUDGET_SCALE', '1'))
            t0 = time.time()
            state = {'n': 0, 'stopped': False}
            strat = sub.strategy(tier)

            def body(case):
                _sub_name, _state, _t0, _budget = sub_name, state, t0, budget
                if _state['stopped'] or time.time() - _t0 > _budget:
                    _state['stopped'] = True
                    out['budget_hit'] = True
                    raise _BudgetStop()
                ctx = run_case(mod, _sub_name, case, in_hypothesis=True)
                _state['n'] += 1
                out['evaluations'] += 1
                for lb in ctx.labels:
                    key = f'{_sub_name}:{lb}'
                    out['labels'][key] = out['labels'].get(key, 0) + 1
                    if key not in out['label_samples'] and len(out['label_samples']) < 60:
                        out['label_samples'][key] = to_jsonable(case)
                for ex in ctx.excluded:
                    out['excluded'][ex] = out['excluded'].get(ex, 0) + 1
                if ctx.nontrivial:
                    out['nt_hashes'].add(case_hash(case))
                    if len(out['samples']) < 2:
                        out['samples'].append({'sub': _sub_name, 'case': to_jsonable(case)})
                for f in ctx.findings:
                    f.size = _size_of(f.case)
                    b = out['buckets'].get(f.bucket)
                    if b is None:
                        out['buckets'][f.bucket] = {'count': 1, 'witness': f.to_json(), 'size': f.size}
                    else:
                        b['count'] += 1
                        if f.size < b['size']:
                            b['witness'] = f.to_json()
                            b['size'] = f.size

            test = given(strat)(body)
            test = hypothesis.seed(_shard_seed(seed, shard, sub_name))(test)
            test = settings(max_examples=n, database=None, deadline=None, derandomize=False,
                            report_multiple_bugs=False, suppress_health_check=list(HealthCheck),
                            phases=[Phase.generate] if os.environ.get("VERIF_TARGET") != "1" else [Phase.generate, Phase.target])(test)
            try:
                test()
            except _BudgetStop:
                pass
            out['per_sub'][sub_name] = state['n']
    except HarnessError as e:
        out['harness_error'] = str(e)
    except Exception as e:  # hypothesis internal / strategy errors
        out['harness_error'] = f'{type(e).__name__}: {e}\n' + traceback.format_exc()[-3000:]
    out['nt_hashes'] = list(out['nt_hashes'])
    return out


# --------------------------------------------------------------------------

def load_property(prop: str):
    if os.path.abspath(REPO) not in [os.path.abspath(p) for p in sys.path[:1]]:
        sys.path.insert(0, os.path.abspath(REPO))
    import ahrs
    got = os.path.abspath(os.path.dirname(ahrs.__file__))
    want = os.path.join(os.path.abspath(REPO), 'ahrs')
    if got != want:
        raise HarnessError(f'ahrs imported from {got}, expected {want}')
    return importlib.import_module(f'vf.props.{prop.lower()}')


def load_known(prop: str):
    path = os.path.join(VERIF_DIR, 'known_findings.json')
    if not os.path.exists(path):
        return []
    with open(path) as f:
        data = json.load(f)
    return [e for e in data.get('findings', []) if e.get('property') == prop]


def match_known(bucket: str, known) -> dict | None:
    import fnmatch
    for e in known:
        if e.get('status') != 'open':
            continue            # a fixed entry suppresses nothing
        for pat in e.get('buckets', []):
            if fnmatch.fnmatchcase(bucket, pat):
                return e
    return None


def shrink_witness(mod, sub_name: str, bucket: str, witness_case, tier: str, seed: int):
    """Hypothesis-driven shrink of one bucket: find() the smallest generated case
    that still produces the same bucket.  Falls back to the collected witness."""
    import hypothesis
    from hypothesis import settings, HealthCheck, Phase
    sub = mod.SUBCHECKS[sub_name]
    t0 = time.time()
    cap = 20.0 if tier == 'quick' else 60.0

    if bucket.startswith('no_return|') or '|no_return|' in bucket:
        return witness_case, 'smallest collected witness (non-returning calls are not shrunk)'

    def pred(case):
        if time.time() - t0 > cap:
            return False
        try:
            # candidates that run into non-returning code are abandoned after 10 s of CPU instead of the full limit
            ctx = run_case(mod, sub_name, case, cpu_limit=min(CASE_CPU_LIMIT, 10.0) if CASE_CPU_LIMIT > 0 else 0)
        except HarnessError:
            return False
        return any(f.bucket == bucket for f in ctx.findings)

    try:
        found = hypothesis.find(
            sub.strategy(tier), pred,
            settings=settings(max_examples=3000 if tier == 'quick' else 30000, database=None, deadline=None,
                              suppress_health_check=list(HealthCheck),
                              phases=[Phase.generate, Phase.shrink]),
            random=__import__('random').Random(seed))
        if _size_of(found) <= _size_of(witness_case):
            return found, 'hypothesis.find shrink'
    except Exception:
        pass
    return witness_case, 'smallest collected witness'


def write_replay(prop: str, bucket: str, sub: str, case, msg: str, how: str) -> str:
    d = os.path.join(os.environ.get('VERIF_OUT_DIR') or os.path.join(VERIF_DIR, 'out'), 'replays', prop)
    os.makedirs(d, exist_ok=True)
    h = hashlib.blake2b(bucket.encode(), digest_size=6).hexdigest()
    path = os.path.join(d, f'{h}.json')
    with open(path, 'w') as f:
        json.dump({'property': prop, 'sub': sub, 'bucket': bucket, 'msg': msg, 'shrunk_by': how,
                   'case': to_jsonable(case)}, f, indent=1, allow_nan=False)
    return path


def replay_file(prop: str, path: str, quiet=False):
    mod = load_property(prop)
    with open(path) as f:
        rec = json.load(f)
    sub = rec['sub']
    ctx = run_case(mod, sub, revive(rec['case']))
    return rec, ctx


def validate_evidence(ev: dict):
    schema_path = '/root/.vp/EVIDENCE.schema.json'
    try:
        import jsonschema
    except Exception:
        jsonschema = None
    if jsonschema is not None and os.path.exists(schema_path):
        with open(schema_path) as f:
            schema = json.load(f)
        jsonschema.validate(ev, schema)
    else:
        cov = ev['coverage']
        for k in ('evaluations', 'distinct_nontrivial', 'rule', 'samples'):
            if k not in cov:
                raise HarnessError(f'evidence lacks coverage.{k}')
        if cov['evaluations'] < 1 or cov['distinct_nontrivial'] < 2 or not cov['samples']:
            raise HarnessError('evidence counts too small: ' + json.dumps({k: cov[k] for k in ('evaluations', 'distinct_nontrivial')}))


def run_fuzz_campaign(prop: str, seed: int, seconds: int, workers: int):
    """Thorough-tier extra: coverage-guided atheris/libFuzzer workers on vf/fuzz/target.py (oracle inside the target).
    Returns (bucket dict, stats) or (None, reason) when atheris is unavailable."""
    import shutil
    import subprocess
    import tempfile
    deps = os.path.join(VERIF_DIR, '.deps')
    env = dict(os.environ, PYTHONPATH=os.pathsep.join([os.path.abspath(REPO), VERIF_DIR, deps]), AHRS_REPO=os.path.abspath(REPO))
    probe = subprocess.run([sys.executable, '-c', 'import atheris'], env=env, capture_output=True)
    if probe.returncode != 0:
        return None, 'atheris not importable (run setup.sh); thorough tier continued with Hypothesis only'
    work = tempfile.mkdtemp(prefix=f'fuzz-{prop}-', dir=os.environ.get('TMPDIR', '/tmp'))
    procs = []
    for w in range(workers):
        corpus = os.path.join(work, f'corpus{w}')
        os.makedirs(corpus)
        out = os.path.join(work, f'findings{w}.jsonl')
        procs.append((out, subprocess.Popen([sys.executable, '-m', 'vf.fuzz.target', prop, out, f'-max_total_time={seconds}', f'-seed={seed*100+w+1}',
                                             '-max_len=256', corpus], env=env, cwd=VERIF_DIR, stdout=subprocess.DEVNULL, stderr=subprocess.DEVNULL)))
    buckets, stats = {}, {'workers': workers, 'seconds': seconds, 'execs': 0, 'nontrivial': 0, 'findings': 0, 'corpus_files': 0}
    for out, pr in procs:
        try:
            pr.wait(timeout=seconds + 120)
        except Exception:
            pr.kill()
        try:
            st_ = json.load(open(out + '.stats'))
            for k in ('execs', 'nontrivial', 'findings'):
                stats[k] += int(st_.get(k, 0))
        except Exception:
            pass
        if os.path.exists(out):
            for ln in open(out):
                try:
                    f = json.loads(ln)
                except Exception:
                    continue
                size = len(json.dumps(f['case']))
                b = buckets.get(f['bucket'])
                if b is None:
                    buckets[f['bucket']] = {'count': 1, 'witness': {'bucket': f['bucket'], 'msg': f['msg'], 'sub': f['sub'], 'case': f['case']}, 'size': size}
                else:
                    b['count'] += 1
                    if size < b['size']:
                        b['witness'], b['size'] = {'bucket': f['bucket'], 'msg': f['msg'], 'sub': f['sub'], 'case': f['case']}, size
    for w in range(workers):
        try:
            stats['corpus_files'] += len(os.listdir(os.path.join(work, f'corpus{w}')))
        except Exception:
            pass
    shutil.rmtree(work, ignore_errors=True)
    return buckets, stats


def run_property(prop: str, tier: str, seed: int, only_sub: str | None = None) -> int:
    t_start = time.time()
    mod = load_property(prop)
    known = load_known(prop)
    if hasattr(mod, 'selftest'):
        mod.selftest()

    violations: list[tuple[str, str]] = []
    known_hits: dict[str, dict] = {}
    all_buckets: dict[str, dict] = {}

    def absorb(bucket, rec):
        cur = all_buckets.get(bucket)
        if cur is None:
            all_buckets[bucket] = dict(rec)
        else:
            cur['count'] += rec['count']
            if rec['size'] < cur['size']:
                cur['witness'] = rec['witness']
                cur['size'] = rec['size']

    # 1. replay tier: committed regression replays + fixed probes of the module
    n_replayed = 0
    rdir = os.path.join(VERIF_DIR, 'replays', prop)
    replay_cases = []
    if os.path.isdir(rdir):
        for fn in sorted(os.listdir(rdir)):
            if fn.endswith('.json'):
                with open(os.path.join(rdir, fn)) as f:
                    rec = json.load(f)
                replay_cases.append((rec['sub'], revive(rec['case']), fn))
    for sub_name, case in getattr(mod, 'PROBES', []):
        replay_cases.append((sub_name, case, 'probe'))
    nt_hashes: set[str] = set()
    evaluations = 0
    samples = []
    labels: dict[str, int] = {}
    label_samples: dict[str, Any] = {}
    excluded: dict[str, int] = {}
    for sub_name, case, origin in replay_cases:
        if only_sub and sub_name != only_sub:
            continue
        ctx = run_case(mod, sub_name, case)
        n_replayed += 1
        evaluations += 1
        if ctx.nontrivial:
            nt_hashes.add(case_hash(case))
        for lb in ctx.labels:
            labels[f'{sub_name}:{lb}'] = labels.get(f'{sub_name}:{lb}', 0) + 1
        for f in ctx.findings:
            absorb(f.bucket, {'count': 1, 'witness': f.to_json(), 'size': _size_of(case)})

    # 2. generated search, sharded
    import multiprocessing as mp
    nshards = NSHARDS
    jobs = [(prop, tier, seed, s, nshards, only_sub) for s in range(nshards)]
    if nshards == 1:
        results = [shard_worker(jobs[0])]
    else:
        ctxmp = mp.get_context('spawn')
        scale = max(1.0, float(os.environ.get('VERIF_SCALE', '1')))
        total_budget = sum((sb.budget_quick if tier == 'quick' else sb.budget_thorough) for nm, sb in mod.SUBCHECKS.items()
                           if not only_sub or nm == only_sub)*scale*float(os.environ.get('VERIF_BUDGET_SCALE', '1'))
        with ctxmp.Pool(min(nshards, os.cpu_count() or 1)) as pool:
            try:
                # every shard stops generating at its wall budget and every case at its CPU limit; anything beyond that
                # (code stuck inside a C call, a dead worker) is a harness error, never a verdict
                results = pool.map_async(shard_worker, jobs, chunksize=1).get(timeout=total_budget*4 + 8*CASE_CPU_LIMIT + 600)
            except mp.TimeoutError:
                pool.terminate()
                print(f'HARNESS-ERROR property={prop}: shards did not finish within 4x the budget plus the case CPU limit', file=sys.stderr)
                return 2
    budget_hit = False
    per_sub: dict[str, int] = {}
    for r in results:
        if r['harness_error']:
            print(f'HARNESS-ERROR property={prop}: {r["harness_error"]}', file=sys.stderr)
            return 2
        evaluations += r['evaluations']
        nt_hashes.update(r['nt_hashes'])
        budget_hit |= r['budget_hit']
        for k, v in r['labels'].items():
            labels[k] = labels.get(k, 0) + v
        for k, v in r['label_samples'].items():
            label_samples.setdefault(k, v)
        for k, v in r['excluded'].items():
            excluded[k] = excluded.get(k, 0) + v
        for k, v in r['per_sub'].items():
            per_sub[k] = per_sub.get(k, 0) + v
        for s in r['samples']:
            if len(samples) < 6:
                samples.append(s)
        for b, rec in r['buckets'].items():
            absorb(b, rec)

    # 2b. thorough tier: coverage-guided fuzzing campaign where the property module offers a target
    fuzz_stats = None
    if tier == 'thorough' and getattr(mod, 'FUZZ', False) and not only_sub:
        fb, fuzz_stats = run_fuzz_campaign(prop, seed, int(os.environ.get('VERIF_FUZZ_SECONDS', '240')), min(nshards, os.cpu_count() or 1))
        if fb is None:
            fuzz_stats = {'skipped': fuzz_stats}
        else:
            evaluations += fuzz_stats['execs']
            for b, rec in fb.items():
                absorb(b, rec)

    # 3. classify buckets
    for bucket in sorted(all_buckets):
        rec = all_buckets[bucket]
        e = match_known(bucket, known)
        if e is not None:
            kh = known_hits.setdefault(e['id'], {'entry': e, 'count': 0, 'buckets': []})
            kh['count'] += rec['count']
            kh['buckets'].append(bucket)
            continue
        w = rec['witness']
        case, how = w['case'], 'smallest collected witness'
        if os.environ.get('VERIF_NO_SHRINK') != '1' and len(violations) < 8:
            case, how = shrink_witness(mod, w['sub'], bucket, w['case'], tier, seed)
            if how.startswith('hypothesis'):
                ctx = run_case(mod, w['sub'], case)
                msgs = [f.msg for f in ctx.findings if f.bucket == bucket]
                if msgs:
                    w = dict(w, msg=msgs[0])
        path = write_replay(prop, bucket, w['sub'], case, w['msg'], how)
        violations.append((bucket, path))

    for kid, kh in sorted(known_hits.items()):
        print(f"KNOWN-FINDING: property={prop} {kid}: {kh['entry']['what']} (seen {kh['count']}x this run)")
    for bucket, path in violations:
        print(f'VIOLATION property={prop} replay={path}')
        print(f'  bucket={bucket} count={all_buckets[bucket]["count"]} msg={all_buckets[bucket]["witness"]["msg"][:300]}')

    # required label classes must be populated (vacuity guard)
    missing = [lb for lb in getattr(mod, 'REQUIRED_LABELS', []) if labels.get(lb, 0) == 0]
    if missing and not only_sub and not budget_hit:
        print(f'HARNESS-ERROR property={prop}: generator never produced classes {missing}', file=sys.stderr)
        return 2

    if not samples:
        # fall back to any label sample so that the evidence shows real cases
        for k, v in list(label_samples.items())[:3]:
            samples.append({'label': k, 'case': v})
    for k, v in list(label_samples.items())[:12]:
        samples.append({'label': k, 'case': v})

    ev = {
        'property_id': prop,
        'tier': tier,
        'seed': int(seed),
        'level': getattr(mod, 'LEVEL', 'exploration'),
        'coverage': {
            'evaluations': int(evaluations),
            'distinct_nontrivial': int(len(nt_hashes)),
            'rule': mod.RULE,
            'samples': samples[:18],
            'per_subcheck': per_sub,
            'replayed': n_replayed,
            'regions': dict(sorted(labels.items())),
            'excluded_known': excluded,
            'buckets': {b: r['count'] for b, r in sorted(all_buckets.items())},
            'known_findings_reported': sorted(known_hits),
            'shards': nshards,
            'fuzz_campaign': fuzz_stats,
            'budget_hit': bool(budget_hit),
            'inconclusive_budget': bool(budget_hit),
            'exhaustive': False,
        },
        'assumptions': list(getattr(mod, 'ASSUMPTIONS', [])),
        'wall_s': round(time.time() - t_start, 2),
        'violations': len(violations),
    }
    try:
        validate_evidence(ev)
    except HarnessError as e:
        print(f'HARNESS-ERROR property={prop}: {e}', file=sys.stderr)
        return 2
    except Exception as e:
        print(f'HARNESS-ERROR property={prop}: evidence does not validate: {e}', file=sys.stderr)
        return 2
    if not only_sub:
        evdir = os.environ.get('VERIF_EVIDENCE_DIR') or os.path.join(VERIF_DIR, 'evidence')
        os.makedirs(evdir, exist_ok=True)
        with open(os.path.join(evdir, f'{prop}.json'), 'w') as f:
            json.dump(ev, f, indent=1, allow_nan=False, sort_keys=False)
    print(f'{prop} {tier} seed={seed}: {evaluations} cases, {len(nt_hashes)} distinct non-trivial, '
          f'{len(all_buckets)} failing buckets ({len(violations)} new, {len(known_hits)} known), '
          f'{ev["wall_s"]}s' + (' [budget hit: inconclusive beyond this point]' if budget_hit else ''))
    return 1 if violations else 0
