"""Single-frame estimator table shared by C03, C04, C07 (and the callable table of C19).

Each row documents, for one estimator entry point, the direction in which its attitude maps the reference
vectors onto the measurements and which reference vectors it uses:

    direction 'inv':  measurement = R(q)^T . reference      (q is sensor -> earth)
    direction 'fwd':  measurement = R(q)   . reference      (q / A is earth -> sensor)

The table is data; `selftest()` asserts on fixed generic attitudes that every row is an exact solution on the
unchanged conventions (a wrong row is a harness error, not an alarm).
"""
from __future__ import annotations

import math
import numpy as np

from vf import oracle


def cd(d):
    return math.cos(math.radians(d))


def sd(d):
    return math.sin(math.radians(d))


class Row:
    def __init__(self, name, direction, a_ref, m_ref, single, batch=None, cls='B', out='q', frames=('NED',),
                 uses_mag=True, seeded=False, tilt_only=False, note='', one_sample=True, reused=None):
        self.name = name
        self.direction = direction          # 'inv' | 'fwd'
        self.a_ref = a_ref                  # f(frame) -> 3-vector
        self.m_ref = m_ref                  # f(frame, dip) -> 3-vector (None when unused)
        self.single = single                # f(acc, mag, frame, dip) -> attitude (q or 3x3)
        self.batch = batch                  # f(ACC, MAG, frame, dip) -> N attitudes, or None
        self.cls = cls                      # 'A' all of SO(3) | 'B' general position only
        self.out = out                      # 'q' | 'R' | 'angles'
        self.frames = frames
        self.uses_mag = uses_mag
        self.seeded = seeded
        self.tilt_only = tilt_only
        self.note = note
        self.one_sample = one_sample      # the batch entry point also takes one 1-D sample and returns one attitude
        # f(acc, mag, frame, dip, acc0, mag0, frame0, dip0) -> attitude from an object that has already estimated (acc0, mag0) under
        # the references of (frame0, dip0) and whose references were then re-assigned the documented way; None when undocumented
        self.reused = reused


def _Z(sign):
    return lambda frame: np.array([0.0, 0.0, float(sign)])


def _zf(ned, enu):
    return lambda frame: np.array([0.0, 0.0, float(ned if frame == 'NED' else enu)])


def m_x_plus(frame, dip):          # NED (cos, 0, sin); ENU (0, cos, -sin)
    return np.array([cd(dip), 0.0, sd(dip)]) if frame == 'NED' else np.array([0.0, cd(dip), -sd(dip)])


def m_x_plus_ned_only(frame, dip):
    return np.array([cd(dip), 0.0, sd(dip)])


def m_flae(frame, dip):
    return np.array([cd(dip), 0.0, -sd(dip)])


def oleq_param(frame, dip):
    """OLEQ/ROLEQ build m_ref = (sin p, 0, cos p) in NED and (0, cos p, -sin p) in ENU from a float p: the physical dip
    angle d (horizontal cos d, downward sin d) corresponds to p = 90 - d in NED and p = d in ENU."""
    return 90.0 - dip if frame == 'NED' else dip


def m_y_plus(frame, dip):
    return np.array([0.0, cd(dip), sd(dip)])


# Options applied by the weighted estimators (Davenport, QUEST, FLAE, OLEQ); set by the caller around a case via set_weights().
OPTS = {'weights': None}


def set_weights(w):
    OPTS['weights'] = None if w is None else [float(w[0]), float(w[1])]


def _wkw():
    """keyword dict with a fresh array of the weights of the current case (nothing when the defaults are wanted)"""
    return {} if OPTS['weights'] is None else {'weights': np.array(OPTS['weights'], dtype=float)}


def build_rows():
    import ahrs
    from ahrs.filters import TRIAD, Davenport, QUEST, FLAE, OLEQ, SAAM, FAMC, FQA, Tilt, AQUA
    from ahrs.common import orientation as ori

    A = np.array
    rows = []

    def add(*a, **k):
        rows.append(Row(*a, **k))

    # --- TRIAD (matrix form: singularity free; quaternion form goes through chiaverini: class B)
    def triad(rep):
        def single(acc, mag, frame, dip):
            t = TRIAD(v1=A(_zf(1, -1)(frame)), v2=A(m_x_plus(frame, dip)), frame=frame, representation=rep)
            return t.estimate(A(acc), A(mag), representation=rep)

        def batch(ACC, MAG, frame, dip):
            return TRIAD(A(ACC), A(MAG), v1=A(_zf(1, -1)(frame)), v2=A(m_x_plus(frame, dip)), frame=frame, representation=rep).A

        def reused(acc, mag, frame, dip, acc0, mag0, frame0, dip0):
            # the class docstring's usage: one object, `triad.v1 = ...; triad.v2 = ...` before an estimate
            t = TRIAD(v1=A(_zf(1, -1)(frame0)), v2=A(m_x_plus(frame0, dip0)), frame=frame0, representation=rep)
            t.estimate(A(acc0), A(mag0), representation=rep)
            t.v1 = A(_zf(1, -1)(frame))
            t.v2 = A(m_x_plus(frame, dip))
            return t.estimate(A(acc), A(mag), representation=rep)
        return single, batch, reused
    s, b, r = triad('rotmat')
    add('TRIAD[rotmat]', 'fwd', _zf(1, -1), m_x_plus, s, b, cls='A', out='R', frames=('NED', 'ENU'), reused=r)
    s, b, r = triad('quaternion')
    add('TRIAD[quaternion]', 'fwd', _zf(1, -1), m_x_plus, s, b, cls='B', out='q', frames=('NED', 'ENU'), reused=r)

    # --- Davenport / QUEST
    add('Davenport', 'inv', _Z(1), m_x_plus_ned_only,
        lambda acc, mag, frame, dip: Davenport(magnetic_dip=dip, **_wkw()).estimate(A(acc), A(mag)),
        lambda ACC, MAG, frame, dip: Davenport(A(ACC), A(MAG), magnetic_dip=dip, **_wkw()).Q, cls='A')
    add('QUEST', 'inv', _Z(1), m_x_plus_ned_only,
        lambda acc, mag, frame, dip: QUEST(magnetic_dip=dip, **_wkw()).estimate(A(acc), A(mag)),
        lambda ACC, MAG, frame, dip: QUEST(A(ACC), A(MAG), magnetic_dip=dip, **_wkw()).Q, cls='B')

    # --- FLAE, three modes (eigen mode is singularity free)
    for method, cls in (('eig', 'A'), ('symbolic', 'B'), ('newton', 'B')):
        add(f'FLAE[{method}]', 'inv', _Z(1), m_flae,
            (lambda method: lambda acc, mag, frame, dip: FLAE(magnetic_dip=dip, **_wkw()).estimate(A(acc), A(mag), method=method))(method),
            (lambda method: lambda ACC, MAG, frame, dip: FLAE(A(ACC), A(MAG), method=method, magnetic_dip=dip, **_wkw()).Q)(method), cls=cls)

    # --- OLEQ (random start vector: caller seeds numpy's global generator)
    add('OLEQ', 'inv', _zf(-1, 1), m_x_plus,
        lambda acc, mag, frame, dip: OLEQ(magnetic_ref=float(oleq_param(frame, dip)), frame=frame, **_wkw()).estimate(A(acc), A(mag)),
        lambda ACC, MAG, frame, dip: OLEQ(A(ACC), A(MAG), magnetic_ref=float(oleq_param(frame, dip)), frame=frame, **_wkw()).Q, cls='B', frames=('NED', 'ENU'), seeded=True)

    # --- SAAM / FAMC: references implied by the data (gravity +z, field in the x-z plane)
    add('SAAM[quaternion]', 'fwd', _Z(1), m_x_plus_ned_only,
        lambda acc, mag, frame, dip: SAAM().estimate(A(acc), A(mag)),
        lambda ACC, MAG, frame, dip: SAAM(A(ACC), A(MAG)).Q, cls='B')
    add('SAAM[rotmat]', 'fwd', _Z(1), m_x_plus_ned_only,
        lambda acc, mag, frame, dip: SAAM(A(acc), A(mag), representation='rotmat').A,
        lambda ACC, MAG, frame, dip: SAAM(A(ACC), A(MAG), representation='rotmat').A, cls='B', out='R')
    add('FAMC', 'inv', _Z(1), m_x_plus_ned_only,
        lambda acc, mag, frame, dip: FAMC().estimate(A(acc), A(mag)),
        lambda ACC, MAG, frame, dip: FAMC(A(ACC), A(MAG)).Q, cls='B')

    # --- FQA (gravity reference pointing to -z; only the horizontal direction of mag_ref is used)
    add('FQA', 'inv', _Z(-1), m_x_plus_ned_only,
        lambda acc, mag, frame, dip: FQA(mag_ref=A(m_x_plus_ned_only(frame, dip))).estimate(A(acc), A(mag)),
        lambda ACC, MAG, frame, dip: FQA(A(ACC), A(MAG), mag_ref=A(m_x_plus_ned_only(frame, dip))).Q, cls='B')

    # --- Tilt (three representations)
    for rep, out in (('quaternion', 'q'), ('rotmat', 'R'), ('angles', 'angles')):
        add(f'Tilt[{rep}]', 'inv', _Z(1), m_x_plus_ned_only,
            (lambda rep: lambda acc, mag, frame, dip: Tilt().estimate(A(acc), A(mag), representation=rep))(rep),
            (lambda rep: lambda ACC, MAG, frame, dip: Tilt(A(ACC), A(MAG), representation=rep).Q)(rep), cls='A', out=out)
        add(f'Tilt[{rep},acc]', 'inv', _Z(1), None,
            (lambda rep: lambda acc, mag, frame, dip: Tilt().estimate(A(acc), representation=rep))(rep),
            (lambda rep: lambda ACC, MAG, frame, dip: Tilt(A(ACC), representation=rep).Q)(rep), cls='A', out=out, uses_mag=False, tilt_only=True)

    # --- AQUA algebraic fix
    add('AQUA.estimate', 'fwd', _Z(1), m_x_plus_ned_only,
        lambda acc, mag, frame, dip: AQUA().estimate(A(acc), A(mag)),
        lambda ACC, MAG, frame, dip: AQUA(A(ACC), A(MAG)).Q, cls='A')
    add('AQUA.estimate[acc]', 'fwd', _Z(1), None,
        lambda acc, mag, frame, dip: AQUA().estimate(A(acc)),
        lambda ACC, MAG, frame, dip: AQUA(A(ACC)).Q, cls='A', uses_mag=False, tilt_only=True)

    # --- free functions of the orientation module
    add('ecompass[rotmat]', 'inv', _Z(1), m_x_plus,
        lambda acc, mag, frame, dip: ori.ecompass(A(acc), A(mag), frame=frame, representation='rotmat'), None,
        cls='A', out='R', frames=('NED', 'ENU'))
    add('ecompass[quaternion]', 'inv', _Z(1), m_x_plus,
        lambda acc, mag, frame, dip: ori.ecompass(A(acc), A(mag), frame=frame, representation='quaternion'), None,
        cls='B', out='q', frames=('NED', 'ENU'))
    add('am2DCM', 'fwd', _zf(-1, 1), m_x_plus,
        lambda acc, mag, frame, dip: ori.am2DCM(A(acc), A(mag), frame=frame), None, cls='A', out='R', frames=('NED', 'ENU'))
    add('am2q', 'inv', _zf(-1, 1), m_x_plus,
        lambda acc, mag, frame, dip: ori.am2q(A(acc), A(mag), frame=frame), None, cls='B', out='q', frames=('NED', 'ENU'))
    add('acc2q', 'inv', _Z(1), None,
        lambda acc, mag, frame, dip: ori.acc2q(A(acc)), None, cls='A', out='q', uses_mag=False, tilt_only=True)
    add('am2angles', 'inv', _Z(1), m_x_plus_ned_only,
        lambda acc, mag, frame, dip: ori.am2angles(A(acc), A(mag))[0],
        lambda ACC, MAG, frame, dip: ori.am2angles(A(ACC), A(MAG)), cls='A', out='angles', one_sample=False)
    return rows


def measurements(row, q_true, frame, dip, s_a=1.0, s_m=1.0):
    R = oracle.q2R(q_true)
    M = R.T if row.direction == 'inv' else R
    acc = s_a*(M @ row.a_ref(frame))
    mag = s_m*(M @ row.m_ref(frame, dip)) if row.m_ref is not None else None
    return acc, mag


def as_rotation(row, out):
    """Own conversion of an estimator output into the rotation matrix R(q) (sensor->earth for 'inv' rows,
    the matrix itself for 'R' outputs)."""
    o = np.asarray(out)
    if row.out == 'q':
        return oracle.q2R(np.array(o, dtype=float))
    if row.out == 'R':
        return np.array(o, dtype=float)
    r, p, y = (float(c) for c in o)
    return oracle.q2R(oracle.rpy2q(r, p, y))


def attitude_error(row, out, q_true, frame):
    """Geodesic angle between the estimate and the truth; for tilt-only rows the angle between the images of the
    gravity reference."""
    Re = as_rotation(row, out)
    Rt = oracle.q2R(q_true)
    if row.tilt_only:
        g = row.a_ref(frame)
        a = (Re.T if row.direction == 'inv' else Re) @ g
        b = (Rt.T if row.direction == 'inv' else Rt) @ g
        return math.atan2(float(np.linalg.norm(np.cross(a, b))), float(np.dot(a, b)))
    return oracle.geodesic(Re, Rt)
