"""Recursive-filter table shared by C03, C05, C06, C13 (and C19).

Each spec knows how to build the filter over a recorded history (batch), how to stream the same samples through
its update method, which reference directions / convention it uses, and which parameters are valid.

Conventions ("direction"):  'inv'  measurement = R(q)^T . reference   (q is sensor -> earth)
                            'fwd'  measurement = R(q)   . reference
"""
from __future__ import annotations

import math
import numpy as np
from hypothesis import strategies as st

from vf import gen, oracle
from vf.estimators import cd, sd, oleq_param


class Spec:
    def __init__(self, name, arch, build, stream=None, frames=('NED',), direction='inv', a_ref=None, m_ref=None,
                 params=None, q0='q0', uses_gyr=True, out='Q', gyro_zero_skips=False, converges=True, note=''):
        self.name = name
        self.arch = arch                  # 'IMU' | 'MARG' | 'GYR'
        self.build = build                # f(gyr, acc, mag, frame, dip, P, q0) -> filter object
        self.stream = stream              # f(frame, dip, P) -> (object, step(q, g, a, m) -> q)
        self.frames = frames
        self.direction = direction
        self.a_ref = a_ref                # f(frame) -> gravity reference
        self.m_ref = m_ref                # f(frame, dip) -> magnetic reference
        self.params = params or (lambda: st.just({}))
        self.q0 = q0                      # 'q0' honoured | 'w0' angles | None (first sample fixes the start)
        self.uses_gyr = uses_gyr
        self.out = out
        self.gyro_zero_skips = gyro_zero_skips
        self.converges = converges        # member of C05's list
        self.note = note

    def Q(self, obj):
        return np.asarray(obj.Q)


def _g(z):
    return lambda frame: np.array([0.0, 0.0, float(z)])


def _gf(ned, enu):
    return lambda frame: np.array([0.0, 0.0, float(ned if frame == 'NED' else enu)])


def m_ned(frame, dip):
    return np.array([cd(dip), 0.0, sd(dip)])


def m_frame(frame, dip):
    return np.array([cd(dip), 0.0, sd(dip)]) if frame == 'NED' else np.array([0.0, cd(dip), -sd(dip)])


def m_mahony(frame, dip):
    return np.array([0.0, cd(dip), sd(dip)])


def rate():
    return st.one_of(st.sampled_from([100.0, 50.0, 10.0, 1000.0]), gen.fl(1.0, 1000.0))


def timing():
    """Either frequency= or Dt=."""
    return st.one_of(rate().map(lambda f: {'frequency': f}), gen.fl(1e-3, 1.0).map(lambda d: {'Dt': d}), st.just({}))


def gain(lo=1e-3, hi=2.0):
    return st.one_of(gen.fl(lo, hi), st.sampled_from([0.033, 0.041, 0.1, 1.0]))


def merged(*strategies):
    def merge(ds):
        out = {}
        for d in ds:
            out.update(d)
        return out
    return st.tuples(*strategies).map(merge)


def opt(name, strategy):
    return st.one_of(st.just({}), strategy.map(lambda v: {name: v}))


def build_specs():
    from ahrs.filters import (Madgwick, Mahony, EKF, UKF, AQUA, Fourati, ROLEQ, FKF, Complementary, AngularRate)
    A = np.array
    S = []

    def kw_q0(q0):
        return {} if q0 is None else {'q0': A(q0)}

    # ---------------- Madgwick
    S.append(Spec('Madgwick', 'IMU',
                  lambda g, a, m, fr, dip, P, q0: Madgwick(gyr=A(g), acc=A(a), **P, **kw_q0(q0)),
                  lambda fr, dip, P: (lambda o: (o, lambda q, g, a, m: o.updateIMU(A(q), A(g), A(a))))(Madgwick(**P)),
                  a_ref=_g(1), params=lambda: merged(timing(), opt('gain', gain()), opt('gain_imu', gain())), gyro_zero_skips=True))
    S.append(Spec('Madgwick', 'MARG',
                  lambda g, a, m, fr, dip, P, q0: Madgwick(gyr=A(g), acc=A(a), mag=A(m), **P, **kw_q0(q0)),
                  lambda fr, dip, P: (lambda o: (o, lambda q, g, a, m: o.updateMARG(A(q), A(g), A(a), A(m))))(Madgwick(**P)),
                  a_ref=_g(1), m_ref=m_ned, params=lambda: merged(timing(), opt('gain', gain()), opt('gain_marg', gain())), q0=None,
                  gyro_zero_skips=True))
    # ---------------- Mahony
    mah = lambda: merged(timing(), opt('k_P', gain()), opt('k_I', gain()),
                         opt('b0', st.lists(gen.fl(-0.05, 0.05), min_size=3, max_size=3).map(lambda b: np.array(b))))
    S.append(Spec('Mahony', 'IMU',
                  lambda g, a, m, fr, dip, P, q0: Mahony(gyr=A(g), acc=A(a), **P, **kw_q0(q0)),
                  lambda fr, dip, P: (lambda o: (o, lambda q, g, a, m: o.updateIMU(A(q), A(g), A(a))))(Mahony(**P)),
                  a_ref=_g(1), params=mah, gyro_zero_skips=True))
    S.append(Spec('Mahony', 'MARG',
                  lambda g, a, m, fr, dip, P, q0: Mahony(gyr=A(g), acc=A(a), mag=A(m), **P, **kw_q0(q0)),
                  lambda fr, dip, P: (lambda o: (o, lambda q, g, a, m: o.updateMARG(A(q), A(g), A(a), A(m))))(Mahony(**P)),
                  a_ref=_g(1), m_ref=m_mahony, params=mah, gyro_zero_skips=True))
    # ---------------- EKF
    ekf = lambda: merged(timing(), opt('noises', st.lists(gen.log_uniform(-6, 0), min_size=3, max_size=3)),
                         opt('var_acc', gen.log_uniform(-6, 0)), opt('var_gyr', gen.log_uniform(-6, 0)),
                         opt('P', gen.log_uniform(-3, 0).map(lambda v: np.identity(4)*v)))
    S.append(Spec('EKF', 'IMU',
                  lambda g, a, m, fr, dip, P, q0: EKF(gyr=A(g), acc=A(a), frame=fr, magnetic_ref=float(dip), **P, **kw_q0(q0)),
                  lambda fr, dip, P: (lambda o: (o, lambda q, g, a, m: o.update(A(q), A(g), A(a))))(EKF(frame=fr, magnetic_ref=float(dip), **P)),
                  frames=('NED', 'ENU'), a_ref=_gf(1, -1), params=ekf))
    S.append(Spec('EKF', 'MARG',
                  lambda g, a, m, fr, dip, P, q0: EKF(gyr=A(g), acc=A(a), mag=A(m), frame=fr, magnetic_ref=float(dip), **P, **kw_q0(q0)),
                  lambda fr, dip, P: (lambda o: (o, lambda q, g, a, m: o.update(A(q), A(g), A(a), A(m))))(EKF(frame=fr, magnetic_ref=float(dip), **P)),
                  frames=('NED', 'ENU'), a_ref=_gf(1, -1), m_ref=m_frame, params=ekf))
    # ---------------- UKF (IMU only)
    S.append(Spec('UKF', 'IMU',
                  lambda g, a, m, fr, dip, P, q0: UKF(gyr=A(g), acc=A(a), **P, **kw_q0(q0)),
                  lambda fr, dip, P: (lambda o: (o, lambda q, g, a, m: o.update(A(q), A(g), A(a))))(UKF(**P)),
                  a_ref=_g(1), params=lambda: merged(timing(), opt('alpha', gen.fl(1e-3, 1.0)))))
    # ---------------- AQUA (earth -> sensor convention)
    aq = lambda: merged(timing(), opt('alpha', gen.fl(1e-3, 1.0)), opt('beta', gen.fl(1e-3, 1.0)),
                        opt('threshold', gen.fl(0.5, 0.9999)), opt('adaptive', st.booleans()))
    S.append(Spec('AQUA', 'IMU',
                  lambda g, a, m, fr, dip, P, q0: AQUA(gyr=A(g), acc=A(a), **P, **kw_q0(q0)),
                  lambda fr, dip, P: (lambda o: (o, lambda q, g, a, m: o.updateIMU(A(q), A(g), A(a))))(AQUA(**P)),
                  direction='fwd', a_ref=_g(1), params=aq, gyro_zero_skips=True))
    S.append(Spec('AQUA', 'MARG',
                  lambda g, a, m, fr, dip, P, q0: AQUA(gyr=A(g), acc=A(a), mag=A(m), **P, **kw_q0(q0)),
                  lambda fr, dip, P: (lambda o: (o, lambda q, g, a, m: o.updateMARG(A(q), A(g), A(a), A(m))))(AQUA(**P)),
                  direction='fwd', a_ref=_g(1), m_ref=m_ned, params=aq, gyro_zero_skips=True))
    # ---------------- Fourati (not in C05: correction multiplies the measured rate)
    S.append(Spec('Fourati', 'MARG',
                  lambda g, a, m, fr, dip, P, q0: Fourati(gyr=A(g), acc=A(a), mag=A(m), magnetic_dip=float(dip), **P),
                  lambda fr, dip, P: (lambda o: (o, lambda q, g, a, m: o.update(A(q), A(g), A(a), A(m))))(Fourati(magnetic_dip=float(dip), **P)),
                  a_ref=_g(1), m_ref=m_ned, params=lambda: merged(timing(), opt('gain', gain(1e-3, 1.0))), q0=None,
                  gyro_zero_skips=True, converges=False))
    # ---------------- ROLEQ
    S.append(Spec('ROLEQ', 'MARG',
                  lambda g, a, m, fr, dip, P, q0: ROLEQ(gyr=A(g), acc=A(a), mag=A(m), frame=fr, magnetic_ref=float(oleq_param(fr, dip)), **P, **kw_q0(q0)),
                  lambda fr, dip, P: (lambda o: (o, lambda q, g, a, m: o.update(A(q), A(g), A(a), A(m))))(ROLEQ(frame=fr, magnetic_ref=float(oleq_param(fr, dip)), **P)),
                  frames=('NED', 'ENU'), a_ref=_gf(-1, 1), m_ref=m_frame,
                  params=lambda: merged(timing(), opt('weights', st.lists(gen.fl(0.1, 2.0), min_size=2, max_size=2).map(lambda w: np.array(w))))))
    # ---------------- FKF (batch only)
    S.append(Spec('FKF', 'MARG',
                  lambda g, a, m, fr, dip, P, q0: FKF(gyr=A(g), acc=A(a), mag=A(m), **P), None,
                  a_ref=_g(1), m_ref=m_ned, q0=None,
                  params=lambda: merged(timing(), opt('sigma_g', gen.log_uniform(-4, -1)), opt('sigma_a', gen.log_uniform(-4, -1)),
                                        opt('sigma_m', gen.log_uniform(-4, -1)))))
    # ---------------- Complementary (batch only; state is an angle triple, Q is a property)
    comp = lambda: merged(timing(), opt('gain', st.one_of(gen.fl(0.0, 1.0), st.sampled_from([0.0, 1.0, 0.9, 0.5]))))
    S.append(Spec('Complementary', 'IMU',
                  lambda g, a, m, fr, dip, P, q0: Complementary(gyr=A(g), acc=A(a), **P, **({} if q0 is None else {'w0': A(q0)})), None,
                  a_ref=_g(1), q0='w0', params=comp))
    S.append(Spec('Complementary', 'MARG',
                  lambda g, a, m, fr, dip, P, q0: Complementary(gyr=A(g), acc=A(a), mag=A(m), **P, **({} if q0 is None else {'w0': A(q0)})), None,
                  a_ref=_g(1), m_ref=m_ned, q0='w0', params=comp))
    # ---------------- AngularRate (gyro only)
    ar = lambda: merged(timing(), st.one_of(st.just({}), st.just({'method': 'closed'}),
                                             st.integers(0, 6).map(lambda k: {'method': 'series', 'order': k})))
    S.append(Spec('AngularRate', 'GYR',
                  lambda g, a, m, fr, dip, P, q0: AngularRate(gyr=A(g), **P, **kw_q0(q0)),
                  lambda fr, dip, P: (lambda o: (o, lambda q, g, a, m: o.update(A(q), A(g), **{k: v for k, v in P.items() if k in ('method', 'order')})))(
                      AngularRate(**{k: v for k, v in P.items() if k not in ('method', 'order')})),
                  params=ar, converges=False))
    return S


ARRAY_PARAMS = ('weights', 'b0', 'P', 'noises')


def revive_params(P):
    """Parameters travel through JSON as lists; array-valued ones are turned into ndarrays ONCE per case, so that every
    construction of the case receives the very same array objects (as a caller re-using a settings dict would)."""
    return {k: (np.array(v, dtype=float) if k in ARRAY_PARAMS and isinstance(v, list) else v) for k, v in P.items()}


def spec_key(s):
    return f'{s.name}-{s.arch}'


def measurements(spec, q_true, frame, dip, s_a=1.0, s_m=1.0):
    R = oracle.q2R(q_true)
    M = R.T if spec.direction == 'inv' else R
    acc = s_a*(M @ spec.a_ref(frame)) if spec.a_ref is not None else None
    mag = s_m*(M @ spec.m_ref(frame, dip)) if spec.m_ref is not None else None
    return acc, mag


def attitude_error(spec, q_est, q_true, frame):
    """Geodesic angle to the truth for MARG, angle between gravity images for IMU variants."""
    Re, Rt = oracle.q2R(q_est), oracle.q2R(q_true)
    if spec.arch == 'MARG':
        return oracle.geodesic(Re, Rt)
    g = spec.a_ref(frame)
    a = (Re.T if spec.direction == 'inv' else Re) @ g
    b = (Rt.T if spec.direction == 'inv' else Rt) @ g
    return math.atan2(float(np.linalg.norm(np.cross(a, b))), float(np.dot(a, b)))
