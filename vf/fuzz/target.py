"""atheris (libFuzzer) targets with the semantic oracle inside the target.

usage: python -m vf.fuzz.target <C02|C11> <findings.jsonl> [libFuzzer options...]

The bytes are decoded into a structured case (FuzzedDataProvider), the case is judged by the SAME evaluate() the
Hypothesis check uses, and findings are appended to <findings.jsonl> instead of crashing, so that one shallow defect
does not end the campaign.  Coverage instrumentation: the ahrs package only.
"""
import json
import math
import os
import sys


def decode_c02(fdp):
    classes = ['generic', 'tiny', 'small', 'near_pi', 'very_near_pi', 'exact_pi', 'zero', 'right']
    cls = classes[fdp.ConsumeIntInRange(0, len(classes)-1)]
    axis = [fdp.ConsumeFloatInRange(-1.0, 1.0) for _ in range(3)]
    if fdp.ConsumeBool():       # snap to canonical / two-component axes
        axis = [float(round(a)) for a in axis]
    if math.sqrt(sum(a*a for a in axis)) < 1e-3:
        axis = [0.0, 0.0, 1.0]
    u = fdp.ConsumeProbability()
    ang = {'generic': 1e-2 + u*(math.pi - 2e-2), 'tiny': 10**(-12 + 6*u), 'small': 10**(-6 + 4*u),
           'near_pi': math.pi - 10**(-6 + 4*u), 'very_near_pi': math.pi - 10**(-12 + 6*u), 'exact_pi': math.pi, 'zero': 0.0,
           'right': [math.pi/2, math.pi/3, 2*math.pi/3, math.pi/4][int(u*3.999)]}[cls]
    if fdp.ConsumeBool() and cls not in ('zero', 'exact_pi'):
        ang, cls = -ang, cls + '_neg'
    n = fdp.ConsumeIntInRange(1, 4)
    filler = [[[0.0, 0.0, 1.0], 0.5 + 0.5*k] for k in range(n-1)]
    eta = fdp.ConsumeFloatInRange(-1.0, 1.0) if fdp.ConsumeBool() else 0.0
    return 'dcm2q', {'cls': cls, 'axis': axis, 'angle': ang, 'n': n, 'idx': fdp.ConsumeIntInRange(0, n-1), 'filler': filler, 'eta': eta}


def decode_c11(fdp):
    specials = [0.0, -0.0, 1.0, -1.0, float('nan'), float('inf'), float('-inf'), 1e-100, 1e100, 5e-324, 1e-300, 0.5]
    target = ['Quaternion', 'QuaternionArray', 'DCM'][fdp.ConsumeIntInRange(0, 2)]
    ndim = fdp.ConsumeIntInRange(0, 3)
    shape = [fdp.ConsumeIntInRange(1, 5) for _ in range(ndim)]
    if fdp.ConsumeBool():       # bias towards the accepted shapes
        shape = {'Quaternion': [[4], [3]], 'QuaternionArray': [[2, 4], [1, 3], [3, 4]], 'DCM': [[3, 3], [2, 3, 3]]}[target][fdp.ConsumeIntInRange(0, 1)]
    size = 1
    for s in shape:
        size *= s
    dtype = ['float', 'float', 'float', 'int', 'bool', 'object', 'str'][fdp.ConsumeIntInRange(0, 6)]
    vals = []
    for _ in range(size):
        if fdp.ConsumeBool():
            vals.append(specials[fdp.ConsumeIntInRange(0, len(specials)-1)])
        else:
            vals.append(fdp.ConsumeFloatInRange(-2.0, 2.0))
    rot = None
    if target == 'DCM' or fdp.ConsumeBool():
        rot = {'axis': [fdp.ConsumeFloatInRange(-1, 1) for _ in range(3)], 'angle': fdp.ConsumeFloatInRange(-3.2, 3.2),
               'perturb': [0.0, 1e-13, 1e-3, -1e-3, 0.5][fdp.ConsumeIntInRange(0, 4)], 'kind': ['none', 'scale', 'reflect', 'shear', 'entry'][fdp.ConsumeIntInRange(0, 4)]}
    return 'fuzz', {'target': target, 'shape': shape, 'dtype': dtype, 'vals': [v if v == v and abs(v) != float('inf') else repr(v) for v in vals],
                    'rot': rot, 'as_list': fdp.ConsumeBool()}


def main():
    prop, out_path = sys.argv[1], sys.argv[2]
    argv = [sys.argv[0]] + sys.argv[3:]
    repo = os.environ.get('AHRS_REPO', '/repo')
    sys.path.insert(0, repo)
    import atheris
    with atheris.instrument_imports(include=['ahrs']):
        import ahrs  # noqa: F401
        import ahrs.common.orientation  # noqa: F401
        import ahrs.common.quaternion  # noqa: F401
        import ahrs.common.dcm  # noqa: F401
    from vf import core
    mod = core.load_property(prop)
    decode = {'C02': decode_c02, 'C11': decode_c11}[prop]
    stats = {'execs': 0, 'nontrivial': 0, 'findings': 0}
    seen = set()
    out = open(out_path, 'a')

    def one_input(data):
        fdp = atheris.FuzzedDataProvider(data)
        try:
            sub, case = decode(fdp)
        except Exception:
            return
        stats['execs'] += 1
        ctx = core.run_case(mod, sub, case)
        if ctx.nontrivial:
            stats['nontrivial'] += 1
        for f in ctx.findings:
            if f.bucket not in seen or stats['findings'] < 2000:
                seen.add(f.bucket)
                stats['findings'] += 1
                out.write(json.dumps({'bucket': f.bucket, 'msg': f.msg, 'sub': sub, 'case': core.to_jsonable(case)}) + '\n')
                out.flush()
        if stats['execs'] % 100 == 0:
            with open(out_path + '.stats', 'w') as g:
                json.dump(stats, g)

    atheris.Setup(argv, one_input)
    try:
        atheris.Fuzz()
    finally:
        with open(out_path + '.stats', 'w') as g:
            json.dump(stats, g)


if __name__ == '__main__':
    main()
