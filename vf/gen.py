"""Shared Hypothesis strategies.  Everything is emitted as plain Python
floats / lists / strings so that cases are JSON-serialisable and replayable.
Construction, not rejection."""
from __future__ import annotations

import math
from hypothesis import strategies as st

PI = math.pi


def fl(lo, hi):
    return st.floats(min_value=lo, max_value=hi, allow_nan=False, allow_infinity=False)


def log_uniform(lo_exp: float, hi_exp: float):
    """10**U(lo_exp, hi_exp)."""
    return fl(lo_exp, hi_exp).map(lambda e: 10.0**e)


@st.composite
def scales(draw, lo_exp=-3.0, hi_exp=3.0):
    """Positive scale factors: log-uniform over [10**lo, 10**hi], exactly 1, and 1 +- 10**U(-12,-3) (the band in which an
    isclose()/allclose() test still says "unit": rounded unit vectors, almost normalised quaternions)."""
    kind = draw(st.sampled_from(['log', 'log', 'one', 'near_one', 'near_one']))
    if kind == 'log':
        return draw(log_uniform(lo_exp, hi_exp))
    if kind == 'one':
        return 1.0
    return 1.0 + draw(st.sampled_from([-1.0, 1.0]))*draw(log_uniform(-12.0, -3.0))


def signs():
    return st.sampled_from([-1.0, 1.0])


def _normalise(v):
    m = max(abs(c) for c in v)
    if m == 0.0 or m != m:
        return [1.0] + [0.0]*(len(v)-1)
    if m < 1e-100 or m > 1e100:
        v = [c/m for c in v]
    n = math.sqrt(math.fsum(c*c for c in v))
    return [c/n for c in v]


CANON_AXES = [[1.0, 0.0, 0.0], [0.0, 1.0, 0.0], [0.0, 0.0, 1.0],
              [-1.0, 0.0, 0.0], [0.0, -1.0, 0.0], [0.0, 0.0, -1.0]]
_S2 = math.sqrt(0.5)
_S3 = math.sqrt(1.0/3.0)
TWO_AXES = [[_S2, _S2, 0.0], [_S2, 0.0, -_S2], [0.0, -_S2, _S2], [-_S2, _S2, 0.0], [0.0, _S2, _S2]]
OBLIQUE_AXES = [[_S3, _S3, _S3], [-_S3, _S3, _S3], [_S3, -_S3, _S3], [_S3, _S3, -_S3],
                _normalise([1.0, 2.0, 3.0]), _normalise([-3.0, 1.0, 2.0]), _normalise([2.0, 2.0, -1.0])]


@st.composite
def random_axis(draw):
    v = [draw(fl(-1.0, 1.0)) for _ in range(3)]
    n = math.sqrt(sum(c*c for c in v))
    if n < 1e-3:
        return [0.0, 0.0, 1.0]
    return [c/n for c in v]


def axes():
    return st.one_of(st.sampled_from(CANON_AXES), st.sampled_from(TWO_AXES),
                     st.sampled_from(OBLIQUE_AXES), random_axis(), random_axis())


def angle_classes():
    """(class name, angle in [0, pi]).  Log-uniform at both ends."""
    return st.one_of(
        st.tuples(st.just('generic'), fl(1e-2, PI - 1e-2)),
        st.tuples(st.just('generic'), fl(1e-2, PI - 1e-2)),
        st.tuples(st.just('tiny'), log_uniform(-12, -6)),
        st.tuples(st.just('small'), log_uniform(-6, -2)),
        st.tuples(st.just('near_pi'), log_uniform(-6, -2).map(lambda d: PI - d)),
        st.tuples(st.just('very_near_pi'), log_uniform(-12, -6).map(lambda d: PI - d)),
        st.tuples(st.just('exact_pi'), st.just(PI)),
        st.tuples(st.just('zero'), st.just(0.0)),
        st.tuples(st.just('right'), st.sampled_from([PI/2, PI/3, 2*PI/3, PI/4])),
    )


def angles_any():
    """Angles in (-pi, pi] with special values and small magnitudes."""
    return st.one_of(
        fl(-PI, PI), fl(-PI, PI),
        st.tuples(signs(), log_uniform(-9, -2)).map(lambda t: t[0]*t[1]),
        st.sampled_from([0.0, PI/2, -PI/2, PI, PI/4, -PI/4, 1.0, -1.0]),
    )


def _axang_q(axis, angle):
    h = 0.5*angle
    s = math.sin(h)
    q = [math.cos(h), s*axis[0], s*axis[1], s*axis[2]]
    return _normalise(q)


@st.composite
def unit_quaternions(draw, allow_denormal=True):
    """Unit quaternions [w,x,y,z] from a mixture of families; returns a list of 4 floats."""
    kind = draw(st.sampled_from(['rand', 'rand', 'axang', 'axang', 'axang', 'special', 'denormal']))
    if kind == 'rand':
        v = [draw(fl(-1.0, 1.0)) for _ in range(4)]
        n = math.sqrt(sum(c*c for c in v))
        if n < 1e-3:
            return [1.0, 0.0, 0.0, 0.0]
        return _normalise(v)
    if kind == 'axang':
        ax = draw(axes())
        _, ang = draw(angle_classes())
        s = draw(signs())
        q = _axang_q(ax, ang)
        return [s*c for c in q]
    if kind == 'special':
        return draw(st.sampled_from([
            [1.0, 0.0, 0.0, 0.0], [-1.0, 0.0, 0.0, 0.0], [0.0, 1.0, 0.0, 0.0], [0.0, 0.0, 1.0, 0.0],
            [0.0, 0.0, 0.0, 1.0], [0.0, -1.0, 0.0, 0.0], [0.5, 0.5, 0.5, 0.5], [0.5, -0.5, 0.5, -0.5],
            [_S2, _S2, 0.0, 0.0], [_S2, 0.0, _S2, 0.0], [_S2, 0.0, 0.0, -_S2], [0.0, _S2, _S2, 0.0],
            [0.0, _S3, _S3, _S3], [0.0, 0.6, 0.0, 0.8], [0.0, 0.0, -0.6, 0.8]]))
    # denormal components
    if not allow_denormal:
        v = [draw(fl(-1.0, 1.0)) for _ in range(4)]
        if math.sqrt(sum(c*c for c in v)) < 1e-3:
            return [1.0, 0.0, 0.0, 0.0]
        return _normalise(v)
    base = [draw(fl(-1.0, 1.0)) for _ in range(4)]
    k = draw(st.integers(1, 2))
    idx = draw(st.permutations([0, 1, 2, 3]))[:k]
    for i in idx:
        base[i] = draw(signs()) * draw(st.sampled_from([5e-324, 1e-310, 2.2250738585072014e-308, 1e-300, 1e-200]))
    rest = math.sqrt(sum(base[i]**2 for i in range(4) if i not in idx))
    if rest < 1e-3:
        j = [i for i in range(4) if i not in idx][0]
        base[j] = 1.0
    return _normalise(base)


@st.composite
def pose_quaternions(draw):
    """The named poses of a strapdown sensor, with a free heading: level (rotation about the vertical only), inverted
    (half-turn about a horizontal axis, then heading), vertical (pitch of exactly +-90 deg with any roll and heading) and
    half-turn about a drawn axis.  Returned as [w,x,y,z] with either sign."""
    kind = draw(st.sampled_from(['level', 'inverted', 'vertical', 'half_turn']))
    yaw = draw(st.one_of(fl(-math.pi, math.pi), st.sampled_from([0.0, math.pi/2, -math.pi/2, math.pi])))
    qz = [math.cos(yaw/2), 0.0, 0.0, math.sin(yaw/2)]

    def mul(p, q):
        return [p[0]*q[0] - p[1]*q[1] - p[2]*q[2] - p[3]*q[3], p[0]*q[1] + p[1]*q[0] + p[2]*q[3] - p[3]*q[2],
                p[0]*q[2] - p[1]*q[3] + p[2]*q[0] + p[3]*q[1], p[0]*q[3] + p[1]*q[2] - p[2]*q[1] + p[3]*q[0]]
    if kind == 'level':
        q = qz
    elif kind == 'inverted':
        b = draw(st.one_of(fl(-math.pi, math.pi), st.sampled_from([0.0, math.pi/2])))
        q = mul(qz, [0.0, math.cos(b), math.sin(b), 0.0])
    elif kind == 'vertical':
        roll = draw(st.one_of(fl(-math.pi, math.pi), st.just(0.0)))
        sp = draw(signs())
        q = mul(mul(qz, [_S2, 0.0, sp*_S2, 0.0]), [math.cos(roll/2), math.sin(roll/2), 0.0, 0.0])
    else:
        ax = draw(axes())
        n = math.sqrt(sum(c*c for c in ax))
        q = [0.0] + [c/n for c in ax]
    s = draw(signs())
    return _normalise([s*c for c in q])


@st.composite
def near_antipodal_pair(draw):
    p = draw(unit_quaternions(allow_denormal=False))
    eps = draw(log_uniform(-12, -2))
    d = [draw(fl(-1.0, 1.0)) for _ in range(4)]
    q = _normalise([-(p[i]) + eps*d[i] for i in range(4)])
    return p, q


@st.composite
def vectors3(draw, lo_exp=-3.0, hi_exp=3.0, allow_zero=False):
    if allow_zero and draw(st.integers(0, 19)) == 0:
        return [0.0, 0.0, 0.0]
    ax = draw(axes())
    m = draw(log_uniform(lo_exp, hi_exp))
    return [m*c for c in ax]


@st.composite
def axis_angle_rotation(draw):
    """(class, axis, angle) for building rotation matrices with the oracle."""
    cls, ang = draw(angle_classes())
    ax = draw(axes())
    if draw(st.integers(0, 7)) == 0:
        ang = -ang
        cls = cls + '_neg'
    return cls, ax, ang
