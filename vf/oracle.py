"""Independent reference mathematics.  Nothing here imports ahrs.

Conventions: quaternions are [w, x, y, z] (Hamilton), R(q) rotates vectors
actively: v' = R v = vec(q v q*)."""
from __future__ import annotations

import math
import numpy as np


# ---------------------------------------------------------------- quaternions

def qmul(p, q):
    pw, px, py, pz = p
    qw, qx, qy, qz = q
    return np.array([
        pw*qw - px*qx - py*qy - pz*qz,
        pw*qx + px*qw + py*qz - pz*qy,
        pw*qy - px*qz + py*qw + pz*qx,
        pw*qz + px*qy - py*qx + pz*qw], dtype=float)


def qconj(q):
    return np.array([q[0], -q[1], -q[2], -q[3]], dtype=float)


def qnorm(q):
    return math.sqrt(math.fsum(float(c)*float(c) for c in q))


def qnormalize(q):
    q = np.asarray(q, dtype=float)
    n = qnorm(q)
    return q / n


def qinv(q):
    q = np.asarray(q, dtype=float)
    return qconj(q) / math.fsum(float(c)*float(c) for c in q)


def q2R(q):
    """Rotation matrix of a (unit) quaternion, homogeneous form divided by |q|^2:
    valid for any non-zero q."""
    w, x, y, z = (float(c) for c in q)
    n2 = w*w + x*x + y*y + z*z
    s = 2.0 / n2
    return np.array([
        [1.0 - s*(y*y + z*z), s*(x*y - w*z), s*(x*z + w*y)],
        [s*(x*y + w*z), 1.0 - s*(x*x + z*z), s*(y*z - w*x)],
        [s*(x*z - w*y), s*(y*z + w*x), 1.0 - s*(x*x + y*y)]])


def rodrigues(axis, angle):
    """R = I + sin(a) K + (1-cos a) K^2 with the numerically safe 2 sin^2(a/2)."""
    u = np.asarray(axis, dtype=float)
    u = u / math.sqrt(math.fsum(float(c)*float(c) for c in u))
    x, y, z = u
    s = math.sin(angle)
    c1 = 2.0 * math.sin(0.5*angle)**2          # 1 - cos(angle) without cancellation
    K = np.array([[0.0, -z, y], [z, 0.0, -x], [-y, x, 0.0]])
    return np.identity(3) + s*K + c1*(K @ K)


def axang2q(axis, angle):
    u = np.asarray(axis, dtype=float)
    u = u / math.sqrt(math.fsum(float(c)*float(c) for c in u))
    h = 0.5*angle
    return np.array([math.cos(h), *(math.sin(h)*u)])


def q2axang(q):
    q = qnormalize(q)
    vn = math.sqrt(math.fsum(float(c)*float(c) for c in q[1:]))
    ang = 2.0*math.atan2(vn, q[0])
    if vn == 0.0:
        return np.zeros(3), 0.0
    return q[1:]/vn, ang


def rot_angle(R):
    """Rotation angle of a rotation matrix, accurate everywhere on [0, pi]:
    atan2(|skew part|, trace part)."""
    R = np.asarray(R, dtype=float)
    s = 0.5*math.sqrt((R[2, 1]-R[1, 2])**2 + (R[0, 2]-R[2, 0])**2 + (R[1, 0]-R[0, 1])**2)
    c = 0.5*(R[0, 0] + R[1, 1] + R[2, 2] - 1.0)
    return math.atan2(s, c)


def geodesic(Ra, Rb):
    """Angle of Ra^T Rb (geodesic distance on SO(3))."""
    return rot_angle(np.asarray(Ra).T @ np.asarray(Rb))


def qangle(p, q):
    """Rotation angle between the rotations of unit quaternions p, q (sign-free)."""
    p = qnormalize(p)
    q = qnormalize(q)
    d = qmul(qconj(p), q)
    vn = math.sqrt(d[1]*d[1] + d[2]*d[2] + d[3]*d[3])
    return 2.0*math.atan2(vn, abs(d[0]))


def elem(axis: str, a: float):
    c, s = math.cos(a), math.sin(a)
    ax = axis.lower()
    if ax == 'x':
        return np.array([[1.0, 0.0, 0.0], [0.0, c, -s], [0.0, s, c]])
    if ax == 'y':
        return np.array([[c, 0.0, s], [0.0, 1.0, 0.0], [-s, 0.0, c]])
    if ax == 'z':
        return np.array([[c, -s, 0.0], [s, c, 0.0], [0.0, 0.0, 1.0]])
    raise ValueError(axis)


def rpy2q(roll, pitch, yaw):
    """ZYX aerospace sequence: q = qz(yaw) * qy(pitch) * qx(roll)."""
    qx = np.array([math.cos(roll/2), math.sin(roll/2), 0.0, 0.0])
    qy = np.array([math.cos(pitch/2), 0.0, math.sin(pitch/2), 0.0])
    qz = np.array([math.cos(yaw/2), 0.0, 0.0, math.sin(yaw/2)])
    return qmul(qz, qmul(qy, qx))


def q2rpy(q):
    return R2rpy(q2R(q))


def R2rpy(R):
    """Angles of R = Rz(yaw) Ry(pitch) Rx(roll)."""
    pitch = -math.asin(max(-1.0, min(1.0, R[2, 0])))
    roll = math.atan2(R[2, 1], R[2, 2])
    yaw = math.atan2(R[1, 0], R[0, 0])
    return np.array([roll, pitch, yaw])


def slerp(p, q, t):
    """Great-arc interpolation along the minor arc (q is flipped when p.q < 0),
    with an atan2-based arc length."""
    p = qnormalize(p)
    q = qnormalize(q)
    d = float(np.dot(p, q))
    if d < 0.0:
        q = -q
        d = -d
    # component of q orthogonal to p
    o = q - d*p
    on = math.sqrt(float(np.dot(o, o)))
    omega = math.atan2(on, d)
    if on < 1e-300:
        return p.copy()
    o = o / on
    return math.cos(t*omega)*p + math.sin(t*omega)*o


def arc_angle(p, q):
    """Angle on S^3 between p and +-q (in [0, pi/2])."""
    p = qnormalize(p)
    q = qnormalize(q)
    d = abs(float(np.dot(p, q)))
    o = q - float(np.dot(p, q))*p
    return math.atan2(math.sqrt(float(np.dot(o, o))), d)


def qexp_pure(v):
    """exp of the pure quaternion (0, v)."""
    v = np.asarray(v, dtype=float)
    t = math.sqrt(float(np.dot(v, v)))
    if t == 0.0:
        return np.array([1.0, 0.0, 0.0, 0.0])
    return np.array([math.cos(t), *(math.sin(t)/t*v)])


# ------------------------------------------------------------- gyro propagation

def step_exact_body(q, w, dt):
    """q_{t+1} = q (x) exp(w dt / 2)  (sensor-to-earth attitude, body rate)."""
    return qmul(q, qexp_pure(0.5*dt*np.asarray(w, dtype=float)))


def step_first_order_body(q, w, dt):
    q = np.asarray(q, dtype=float)
    qd = 0.5*qmul(q, np.array([0.0, *w]))
    r = q + qd*dt
    return r/qnorm(r)


def step_first_order_aqua(q, w, dt):
    """AQUA's earth-to-sensor convention: q' = -1/2 (0,w) (x) q."""
    q = np.asarray(q, dtype=float)
    qd = -0.5*qmul(np.array([0.0, *w]), q)
    r = q + qd*dt
    return r/qnorm(r)


def omega_matrix(w):
    wx, wy, wz = w
    return np.array([
        [0.0, -wx, -wy, -wz],
        [wx, 0.0, wz, -wy],
        [wy, -wz, 0.0, wx],
        [wz, wy, -wx, 0.0]])


def series_step(q, w, dt, order):
    """Truncated matrix exponential of (dt/2) Omega(w), then renormalised."""
    S = 0.5*dt*omega_matrix(w)
    A = np.identity(4)
    term = np.identity(4)
    for i in range(1, order+1):
        term = term @ S / i
        A = A + term
    r = A @ np.asarray(q, dtype=float)
    return r/qnorm(r)


# ------------------------------------------------------------------ self-test

def selftest():
    rng = np.random.RandomState(12345)
    for _ in range(50):
        ax = rng.randn(3)
        ang = rng.uniform(-math.pi, math.pi)
        q = axang2q(ax, ang)
        R1 = q2R(q)
        R2 = rodrigues(ax, ang)
        assert np.max(np.abs(R1 - R2)) < 5e-15, 'q2R vs rodrigues'
        assert abs(np.linalg.det(R1) - 1) < 1e-14
        assert abs(rot_angle(R1) - abs(ang)) < 1e-13
        p = qnormalize(rng.randn(4))
        assert np.max(np.abs(q2R(qmul(p, q)) - q2R(p) @ q2R(q))) < 5e-15
        v = rng.randn(3)
        rv = qmul(qmul(q, np.array([0.0, *v])), qconj(q))[1:]
        assert np.max(np.abs(rv - R1 @ v)) < 1e-14
        r, pch, y = rng.uniform(-3, 3), rng.uniform(-1.5, 1.5), rng.uniform(-3, 3)
        Rr = elem('z', y) @ elem('y', pch) @ elem('x', r)
        assert np.max(np.abs(q2R(rpy2q(r, pch, y)) - Rr)) < 5e-15
        assert np.max(np.abs(R2rpy(Rr) - [r, pch, y])) < 1e-12
        s = slerp(p, q, 0.3)
        assert abs(qnorm(s) - 1) < 1e-14
        assert abs(arc_angle(p, s) - 0.3*arc_angle(p, q)) < 1e-13
        w = rng.randn(3)
        a = step_exact_body(q, w, 0.01)
        b = series_step(q, w, 0.01, 8)
        assert np.max(np.abs(a - b)) < 1e-14
        c = series_step(q, w, 0.01, 1)
        d = step_first_order_body(q, w, 0.01)
        assert np.max(np.abs(c - d)) < 1e-15
    return True


# ------------------------------------------------------------------ geodesy

WGS84_A = 6378137.0
WGS84_F = 1.0/298.257223563
WGS84_B = WGS84_A*(1.0 - WGS84_F)


def geodetic2ecef(lat_deg, lon_deg, h, a=WGS84_A, b=WGS84_B):
    """Textbook forward formula; sin/cos of exact multiples of 90 degrees are taken exactly."""
    def sc(deg):
        r = math.radians(deg)
        s, c = math.sin(r), math.cos(r)
        if deg in (90.0, -90.0, 270.0, -270.0):
            c = 0.0
        if deg in (180.0, -180.0, 0.0):
            s = 0.0 if deg != 0.0 else 0.0
        return s, c
    sl, cl = math.sin(math.radians(lat_deg)), math.cos(math.radians(lat_deg))
    so, co = math.sin(math.radians(lon_deg)), math.cos(math.radians(lon_deg))
    e2 = (a*a - b*b)/(a*a)
    N = a/math.sqrt(1.0 - e2*sl*sl)
    return np.array([(N + h)*cl*co, (N + h)*cl*so, (N*(1.0 - e2) + h)*sl])


def enu_basis(lat_deg, lon_deg):
    """Rows: east, north, up unit vectors in ECEF."""
    la, lo = math.radians(lat_deg), math.radians(lon_deg)
    sl, cl, so, co = math.sin(la), math.cos(la), math.sin(lo), math.cos(lo)
    return np.array([[-so, co, 0.0], [-sl*co, -sl*so, cl], [cl*co, cl*so, sl]])


def level_ellipsoid_gravity(a, f, GM, w):
    """Equatorial and polar normal gravity of a level ellipsoid (Heiskanen & Moritz 2-73/2-74) with q0, q0'
    from their power series in the second eccentricity e' (no cancellation; valid for e' < 1, i.e. f <= 0.29):
        q0  = e'^3 * S,   S  = sum_{k>=1} (-1)^(k+1) 2k/((2k+1)(2k+3)) e'^(2k-2)
        q0' = e'^2 * S',  S' = sum_{k>=1} (-1)^(k+1) 6 /((2k+1)(2k+3)) e'^(2k-2)
    so e' q0'/q0 = S'/S (= 3 for the sphere)."""
    b = a*(1.0 - f)
    es2 = (a*a - b*b)/(b*b)
    m = w*w*a*a*b/GM
    S, Sp, p = [], [], 1.0
    for k in range(1, 400):
        c = (2*k + 1)*(2*k + 3)
        sgn = 1.0 if k % 2 else -1.0
        S.append(sgn*2*k/c*p)
        Sp.append(sgn*6.0/c*p)
        p *= es2
        if p < 1e-40:
            break
    ratio = math.fsum(Sp)/math.fsum(S)
    ge = GM/(a*b)*(1.0 - m - m*ratio/6.0)
    gp = GM/(a*a)*(1.0 + m*ratio/3.0)
    return ge, gp, m
