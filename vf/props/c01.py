"""C01 — quaternions and rotation matrices are one rotation group."""
from __future__ import annotations

import math
import numpy as np
from hypothesis import strategies as st

from vf.core import Sub
from vf import gen, oracle

PROPERTY = 'C01'
LEVEL = 'exploration'
RULE = ('Pairs of unit quaternions p,q from a mixture (normalised random 4-vectors; axis-angle with the angle '
        'log-uniform towards 0 and towards pi; pure/real/+-identity specials; near-antipodal pairs; one or two '
        'denormal components) and vectors v with |v| in 1e-150..1e150 or exactly 0; every case is pushed through '
        'every public q->R route (Quaternion.to_DCM, QuaternionArray.to_DCM row k of N, both also for the scalar-last storage order="S", DCM(q=), DCM.from_quaternion '
        'single+batch, DCM.from_q, orientation.q2R v1/v2 single+batch), every product route (*, @, .product, q_prod) '
        'and every rotate route (Quaternion.rotate 1-D and 3xN, R@v, q v q*, q_rot). Oracle: own q->R formula, '
        'orthogonality/determinant, homomorphism, R(-q)=R(q) bit-exact, R(q*)=R(q)^T, rotate routes agree. '
        'Non-trivial: p and q both more than 1e-3 rad from +-identity, p != +-q, v != 0; distinct = hash of the case.')
ASSUMPTIONS = ['float64 arithmetic; tolerance 1e-12 on unit-scale quantities (observed <= 4e-16)',
               'the reference q->R formula in vf/oracle.py (self-tested against Rodrigues) is correct']
REQUIRED_LABELS = ['group:q=denormal', 'group:q=near_identity', 'group:pair=antipodal']

TOL = 1e-12


def _case():
    @st.composite
    def build(draw):
        if draw(st.integers(0, 9)) == 0:
            p, q = draw(gen.near_antipodal_pair())
        else:
            p = draw(gen.unit_quaternions())
            q = draw(gen.unit_quaternions())
        v = draw(gen.vectors3(-150, 150, allow_zero=True))
        n = draw(st.integers(1, 5))
        idx = draw(st.integers(0, n-1))
        filler = [draw(gen.unit_quaternions(allow_denormal=False)) for _ in range(n-1)]
        return {'p': p, 'q': q, 'v': v, 'n': n, 'idx': idx, 'filler': filler}
    return build()


def q2R_routes(q, case):
    """All public q->R routes; each gets a fresh copy of q.  Yields (name, thunk)."""
    import ahrs
    from ahrs.common import orientation as ori
    from ahrs import Quaternion, QuaternionArray, DCM
    n, idx = case['n'], case['idx']
    rows = [list(r) for r in case['filler']]
    rows.insert(idx, list(q))

    def batch():
        return np.array(rows, dtype=float)

    return [
        ('Quaternion.to_DCM', lambda: np.asarray(Quaternion(np.array(q)).to_DCM())),
        ('QuaternionArray.to_DCM', lambda: np.asarray(QuaternionArray(batch()).to_DCM()[idx])),
        # the scalar-last twins: the same quaternions stored as (x, y, z, w) with order='S'
        ('Quaternion(order=S).to_DCM', lambda: np.asarray(Quaternion(np.roll(np.array(q, dtype=float), -1), order='S').to_DCM())),
        ('QuaternionArray(order=S).to_DCM', lambda: np.asarray(QuaternionArray(np.roll(batch(), -1, axis=1), order='S').to_DCM()[idx])),
        ('DCM(q=)', lambda: np.asarray(DCM(q=np.array(q)))),
        ('DCM.from_quaternion', lambda: np.asarray(DCM.from_quaternion(np.array(q)))),
        ('DCM.from_quaternion[batch]', lambda: np.asarray(DCM.from_quaternion(batch())[idx])),
        ('DCM.from_q', lambda: np.asarray(DCM().from_q(np.array(q)))),
        ('q2R.v1', lambda: np.asarray(ori.q2R(np.array(q), version=1))),
        ('q2R.v2', lambda: np.asarray(ori.q2R(np.array(q), version=2))),
        ('q2R.v1[batch]', lambda: np.asarray(ori.q2R(batch(), version=1)[idx])),
        ('q2R.v2[batch]', lambda: np.asarray(ori.q2R(batch(), version=2)[idx])),
    ]


def _maxabs(a, b):
    d = np.abs(np.asarray(a, dtype=float) - np.asarray(b, dtype=float))
    return float(np.max(d)) if np.all(np.isfinite(d)) else math.inf


def _qclass(q):
    if any(0 < abs(c) < 1e-290 for c in q):
        return 'denormal'
    a = oracle.qangle([1.0, 0, 0, 0], q)
    if a < 1e-3:
        return 'near_identity'
    if abs(q[0]) < 1e-9:
        return 'pure'
    if a > math.pi - 1e-3:
        return 'near_pi'
    return 'generic'


def evaluate(case, ctx):
    from ahrs import Quaternion
    from ahrs.common import orientation as ori
    p = [float(c) for c in case['p']]
    q = [float(c) for c in case['q']]
    v = np.array([float(c) for c in case['v']])
    vn = float(np.linalg.norm(v))
    cq, cp = _qclass(q), _qclass(p)
    ctx.label(f'q={cq}', f'p={cp}')
    dotpq = abs(float(np.dot(p, q)))
    if float(np.dot(p, q)) < -1 + 1e-4:
        ctx.label('pair=antipodal')
    ctx.nt(cq not in ('near_identity',) and cp not in ('near_identity',) and dotpq < 1 - 1e-9 and vn > 0)

    Rq_ref = oracle.q2R(q)
    Rp_ref = oracle.q2R(p)
    negq = [-c for c in q]
    conjq = [q[0], -q[1], -q[2], -q[3]]
    worst = 0.0
    for (name, f), (_, fneg), (_, fconj) in zip(q2R_routes(q, case), q2R_routes(negq, case), q2R_routes(conjq, case)):
        ok, R = ctx.call(f'q2R:{name}', f)
        if not ok:
            continue
        if R.shape != (3, 3) or np.iscomplexobj(R):
            ctx.fail(f'q2R:{name}|shape', f'shape {R.shape} dtype {R.dtype}')
            continue
        e = _maxabs(R, Rq_ref)
        worst = max(worst, e)
        if e > TOL:
            ctx.fail(f'q2R:{name}|mismatch', f'max|R-R_ref|={e:.3e}')
            continue
        e = _maxabs(R @ R.T, np.identity(3))
        if e > TOL or abs(float(np.linalg.det(R)) - 1.0) > TOL:
            ctx.fail(f'q2R:{name}|notSO3', f'|RR^T-I|={e:.3e} det={np.linalg.det(R)!r}')
        ok, Rn = ctx.call(f'q2R:{name}', fneg)
        if ok and not np.array_equal(np.asarray(Rn), R):
            ctx.fail(f'q2R:{name}|neg_q_differs', f'max diff {_maxabs(Rn, R):.3e}')
        ok, Rc = ctx.call(f'q2R:{name}', fconj)
        if ok and _maxabs(Rc, R.T) > TOL:
            ctx.fail(f'q2R:{name}|conj_not_transpose', f'max diff {_maxabs(Rc, R.T):.3e}')
    ctx.target(worst / TOL, 'q2R_err')

    # products
    pq_ref = oracle.qmul(p, q)
    P = Quaternion(np.array(p))
    prods = [
        ('*', lambda: np.asarray(P * np.array(q))),
        ('@', lambda: np.asarray(P @ np.array(q))),
        ('.product', lambda: np.asarray(P.product(np.array(q)))),
        ('*Quaternion', lambda: np.asarray(P * Quaternion(np.array(q)))),
        ('q_prod', lambda: np.asarray(ori.q_prod(np.array(p), np.array(q)))),
    ]
    for name, f in prods:
        ok, r = ctx.call(f'prod:{name}', f)
        if not ok:
            continue
        if r.shape != (4,):
            ctx.fail(f'prod:{name}|shape', f'{r.shape}')
            continue
        e = _maxabs(r, pq_ref)
        if e > TOL:
            ctx.fail(f'prod:{name}|mismatch', f'max diff {e:.3e}')
            continue
        # homomorphism through the package's own product and its own matrix
        ok, Rpq = ctx.call(f'prod:{name}', lambda: np.asarray(Quaternion(r).to_DCM()))
        if ok:
            e = _maxabs(Rpq, Rp_ref @ Rq_ref)
            if e > TOL:
                ctx.fail(f'prod:{name}|homomorphism', f'max|R(pq)-R(p)R(q)|={e:.3e}')

    # rotations of v
    Q = Quaternion(np.array(q))
    ref = Rq_ref @ v
    tolv = TOL * max(vn, 1e-300) * 4
    rots = [
        ('Quaternion.rotate', lambda: np.asarray(Q.rotate(np.array(v)))),
        ('Quaternion.rotate[3xN]', lambda: np.asarray(Q.rotate(np.c_[np.array(v), 2.0*np.array(v), np.array([1.0, 2.0, 3.0])]))[:, 0]),
        # 3-by-N stacks of other widths (N = the case's n, 1..5), the case's vector in column idx, every column checked
        ('Quaternion.rotate[3xn]', lambda: (lambda V: np.asarray(Q.rotate(np.array(V))) - Rq_ref @ V + ref[:, None])(
            np.array([[(j + 1.5)*v[i] + (i + 1.0)*(j != case['idx']) for j in range(case['n'])] for i in range(3)])).T.reshape(-1, 3)),
        ('R@v', lambda: np.asarray(Q.to_DCM()) @ v),
        ('q v q*', lambda: np.asarray(ori.q_prod(np.asarray(Q.product(np.array([0.0, *v]))), np.asarray(Q.conjugate)))[1:]),
    ]
    for name, f in rots:
        ok, r = ctx.call(f'rot:{name}', f)
        if not ok:
            continue
        e = _maxabs(r, ref) if np.ndim(r) == 1 else max(_maxabs(row, ref) for row in r)
        if e > (tolv if np.ndim(r) == 1 else tolv*8 + TOL*40):
            ctx.fail(f'rot:{name}|mismatch', f'max diff {e:.3e} |v|={vn:.3e}')
    ok, r = ctx.call('rot:q_rot', lambda: np.asarray(ori.q_rot(np.array(q), np.array(v))))
    if ok:
        e = _maxabs(r, Rq_ref.T @ v)
        if e > tolv:
            ctx.fail('rot:q_rot|not_inverse_rotation', f'max diff {e:.3e} |v|={vn:.3e}')
    # scalar part of q v q* vanishes
    ok, r = ctx.call('rot:q v q*', lambda: np.asarray(ori.q_prod(np.asarray(Q.product(np.array([0.0, *v]))), np.asarray(Q.conjugate))))
    if ok and abs(float(r[0])) > tolv:
        ctx.fail('rot:q v q*|scalar_part', f'{r[0]!r}')


def selftest():
    oracle.selftest()


SUBCHECKS = {'group': Sub(lambda tier: _case(), evaluate, quick=16000, thorough=1000000)}
