"""C02 — every DCM->quaternion method inverts quaternion->DCM over all of SO(3)."""
from __future__ import annotations

import math
import numpy as np
from hypothesis import strategies as st

from vf.core import Sub
from vf import gen, oracle

PROPERTY = 'C02'
LEVEL = 'exploration'
RULE = ('Rotation matrices built with an own Rodrigues formula from (axis, angle): axes canonical / two-component / '
        'oblique / random; angle classes generic, [1e-12,1e-6), [1e-6,1e-2), (pi-1e-2,pi-1e-6], (pi-1e-6,pi), exact pi '
        '(2uu^T-I, axis-aligned and oblique), exact identity, negative angles. Every case goes through all seven '
        'method/version choices (shepperd, hughes, chiaverini, itzhack v1-3 and default, sarabandi with threshold in [-1,1] incl. 0, and no method= at all) and '
        'every entry point (DCM.to_quaternion, DCM.to_q, Quaternion(dcm=), QuaternionArray(DCM=) row k of N, the bare '
        'orientation function, its Nx3x3 form; in half of the batches the other rows are the same rotation moved on by 1e-12..1e-3 rad, a slowly varying sequence). Oracle: real dtype, shape (4,), finite, unit to 1e-12, own q->R of the '
        'result equals R (1e-10 for shepperd/itzhack everywhere; 2e-7 for the three closed forms on angle <= pi-1e-6; beyond '
        'that the closed forms are labelled, not judged). Non-trivial: angle class != generic, or the Shepperd pivot is '
        'not the trace; distinct = case hash.')
ASSUMPTIONS = ['Rodrigues construction is orthogonal to 2 ulp; inputs within 1e-12 of SO(3) are what "rotation matrix" means',
               'tolerances of DESIGN.md section 2.5 (sqrt(eps) loss of the sqrt(1+trace) closed forms)']
REQUIRED_LABELS = ['dcm2q:batch=slowly_varying', 'dcm2q:cls=exact_pi', 'dcm2q:cls=tiny', 'dcm2q:cls=small', 'dcm2q:cls=near_pi', 'dcm2q:cls=zero',
                   'dcm2q:pivot=1', 'dcm2q:pivot=2', 'dcm2q:pivot=3']

METHODS = [('shepperd', {}), ('hughes', {}), ('chiaverini', {}), ('itzhack', {'version': 1}),
           ('itzhack', {'version': 2}), ('itzhack', {'version': 3}), ('itzhack', {}), ('sarabandi', {}),
           ('default', {})]        # no method= at all: "the default method inverts q -> R for every rotation, including exact half-turns"
EXACT = {'shepperd', 'itzhack', 'default'}


def build_R(cls, axis, angle):
    u = np.array(axis, dtype=float)
    u = u/np.linalg.norm(u)
    if cls.startswith('exact_pi'):
        return 2.0*np.outer(u, u) - np.identity(3)
    if cls.startswith('zero'):
        return np.identity(3)
    return oracle.rodrigues(u, angle)


def _case():
    @st.composite
    def build(draw):
        cls, ax, ang = draw(gen.axis_angle_rotation())
        n = draw(st.integers(1, 4))
        idx = draw(st.integers(0, n-1))
        filler = [[draw(gen.axes()), draw(gen.fl(0.05, 3.0))] for _ in range(n-1)]
        if n > 1 and draw(st.booleans()):
            # a slowly varying sequence (what a time series looks like): the other rows are the same rotation moved on by
            # 1e-12 .. 1e-3 rad, so that neighbouring matrices agree to within any isclose()-style tolerance without being equal
            filler = [[ax, ang + draw(gen.signs())*draw(gen.log_uniform(-12, -3))] for _ in range(n-1)]
        eta = draw(st.one_of(st.just(0.0), gen.fl(-1.0, 1.0), st.sampled_from([-1.0, 1.0, 0.5, -0.5])))
        return {'cls': cls, 'axis': ax, 'angle': ang, 'n': n, 'idx': idx, 'filler': filler, 'eta': eta}
    return build()


def entries(R, case, method, kw):
    import ahrs
    from ahrs import DCM, Quaternion, QuaternionArray
    from ahrs.common import orientation as ori
    idx = case['idx']
    mats = [oracle.rodrigues(a, float(t)) for a, t in case['filler']]
    mats.insert(idx, R)

    def batch():
        return np.array(mats, dtype=float)

    kws = dict(kw)
    if method == 'default':
        return [
            ('DCM.to_quaternion', lambda: DCM(np.array(R)).to_quaternion()),
            ('DCM.to_q', lambda: DCM(np.array(R)).to_q()),
            ('Quaternion(dcm=)', lambda: Quaternion(dcm=np.array(R))),
            ('Quaternion.from_DCM', lambda: Quaternion().from_DCM(np.array(R))),
            ('QuaternionArray(DCM=)', lambda: QuaternionArray(DCM=batch())[idx]),
            ('QuaternionArray.from_DCM', lambda: np.asarray(QuaternionArray().from_DCM(batch(), inplace=False))[idx]),
        ]
    if method == 'sarabandi':
        kws = {'threshold': case['eta']}
    out = [
        ('DCM.to_quaternion', lambda: DCM(np.array(R)).to_quaternion(method=method, **kws)),
        ('DCM.to_q', lambda: DCM(np.array(R)).to_q(method=method, **kws)),
        ('Quaternion(dcm=)', lambda: Quaternion(dcm=np.array(R), method=method, **kws)),
        ('QuaternionArray(DCM=)', lambda: QuaternionArray(DCM=batch(), method=method, **kws)[idx]),
    ]
    fn = getattr(ori, method)
    if method == 'sarabandi':
        out.append(('orientation.fn', lambda: fn(np.array(R), eta=case['eta'])))
    else:
        out.append(('orientation.fn', lambda: fn(np.array(R), **kw)))
    if method in ('hughes', 'chiaverini'):
        out.append(('orientation.fn[batch]', lambda: fn(batch())[idx]))
    return out


def evaluate(case, ctx):
    cls = case['cls']
    ang = abs(float(case['angle']))
    R = build_R(cls, case['axis'], float(case['angle']))
    base = cls.replace('_neg', '')
    ctx.label(f'cls={base}')
    if cls.endswith('_neg'):
        ctx.label('negative_angle')
    u = np.array([np.trace(R), R[0, 0], R[1, 1], R[2, 2]])
    pivot = int(np.argmax(u))
    ctx.label(f'pivot={pivot}')
    ctx.nt(base != 'generic' or pivot != 0)
    if case['n'] > 1 and all(list(a) == list(case['axis']) for a, _ in case['filler']):
        ctx.label('batch=slowly_varying')
    in_closed_domain = base in ('generic', 'tiny', 'small', 'near_pi', 'zero', 'right') and ang <= math.pi - 1e-6
    worst = 0.0
    for method, kw in METHODS:
        mname = method + (f".v{kw['version']}" if 'version' in kw else ('.default' if method == 'itzhack' else ''))
        exact = method in EXACT
        if not exact and not in_closed_domain:
            ctx.label(f'unjudged:{method}')
            continue
        tol = 1e-10 if exact else 2e-7
        for ename, f in entries(R, case, method, kw):
            ok, q = ctx.call(f'{mname}|{ename}', f)
            if not ok:
                continue
            qa = np.asarray(q)
            if np.iscomplexobj(qa):
                ctx.fail(f'{mname}|{ename}|complex', f'dtype {qa.dtype}')
                continue
            if qa.shape != (4,):
                ctx.fail(f'{mname}|{ename}|shape', f'{qa.shape}')
                continue
            qa = np.array(qa, dtype=float)
            if not np.all(np.isfinite(qa)):
                ctx.fail(f'{mname}|{ename}|nonfinite|{base}', f'{qa.tolist()}')
                continue
            if abs(oracle.qnorm(qa) - 1.0) > 1e-12:
                ctx.fail(f'{mname}|{ename}|nonunit|{base}', f'norm {oracle.qnorm(qa)!r}')
                continue
            e = float(np.max(np.abs(oracle.q2R(qa) - R)))
            worst = max(worst, e/tol)
            if e > tol:
                kind = 'mismatch'
                if float(np.max(np.abs(oracle.q2R(qa).T - R))) <= tol and ang > 10*tol:
                    kind = 'conjugate'
                elif float(np.max(np.abs(qa - np.array([1.0, 0, 0, 0])))) == 0.0:
                    kind = 'identity_returned'
                ctx.fail(f'{mname}|{ename}|{kind}|{base}', f'max|R(q)-R|={e:.3e} angle={case["angle"]!r} q={qa.tolist()}')
    ctx.target(worst, 'rel_err')


def selftest():
    oracle.selftest()
    for cls, ax, ang in [('exact_pi', [1, 1, 1], math.pi), ('generic', [1, 2, 3], 1.0), ('tiny', [0, 0, 1], 1e-9)]:
        R = build_R(cls, ax, ang)
        assert np.max(np.abs(R @ R.T - np.identity(3))) < 1e-14


SUBCHECKS = {'dcm2q': Sub(lambda tier: _case(), evaluate, quick=16000, thorough=1000000)}

FUZZ = True      # thorough tier additionally runs the atheris campaign of vf/fuzz/target.py
