"""C03 — every estimator always returns valid attitudes, one per input sample."""
from __future__ import annotations

import math
import signal
import numpy as np
from hypothesis import strategies as st

from vf.core import Sub
from vf import gen, oracle, estimators as E, filters as F

PROPERTY = 'C03'
LEVEL = 'exploration'
RULE = ('Sensor histories of N samples (2..40 quick, 2..400 thorough) from three families. random: rows from a PRNG seeded by a '
        'Hypothesis-drawn integer, directions uniform, per-history scale 10**U(-3,3) for acc and mag and 10**U(-4,1) rad/s for gyr, '
        'mag re-drawn by construction when within 1 deg of parallel to acc. canonical: acc in +-g e_x/e_y/e_z, mag from {-1,0,1}^3 '
        'not parallel to acc or the level pose at heading k*15 deg, gyr from {-0.1,0,0.1}^3 without 0 (all drawn by Hypothesis). '
        'mixed: random rows with canonical rows spliced in. Configuration per case from the shared tables: recursive filters '
        '(Madgwick, Mahony, EKF, UKF, AQUA, Fourati, ROLEQ, FKF, Complementary, AngularRate) x IMU/MARG x NED/ENU x valid '
        'parameters (gains, frequency or Dt, noise variances, AQUA alpha/beta/threshold/adaptive, ROLEQ weights, series orders, '
        'output representation), and every single-frame estimator row (TRIAD, Davenport, QUEST, FLAE x3, OLEQ, SAAM, FAMC, FQA, '
        'Tilt x3, AQUA, am2angles) on N samples. Oracle (validity predicate): leading dimension N, real dtype, all finite, rows '
        'unit quaternions to 1e-9 / proper rotations (|RR^T-I|<=1e-9, det>0) / finite angle triples; exceptions and calls longer than '
        '10 s are findings. Non-trivial: N >= 3 and (family != random or non-default parameters); distinct = case hash.')
ASSUMPTIONS = ['inputs are finite, non-zero, acc and mag at least 1 degree from parallel (the statement\'s domain)',
               'a 10 s watchdog (SIGALRM) turns a non-terminating call into a finding of kind hang']
REQUIRED_LABELS = ['recursive:AngularRate_method=integration', 'recursive:family=canonical', 'recursive:family=random', 'recursive:family=mixed',
                   'single:family=canonical', 'single:family=random']

G = 9.81
CANON_ACC = [[G, 0, 0], [-G, 0, 0], [0, G, 0], [0, -G, 0], [0, 0, G], [0, 0, -G]]
CANON_MAG = [[a, b, c] for a in (-1.0, 0.0, 1.0) for b in (-1.0, 0.0, 1.0) for c in (-1.0, 0.0, 1.0) if (a, b, c) != (0.0, 0.0, 0.0)]
CANON_GYR = [[a, b, c] for a in (-0.1, 0.0, 0.1) for b in (-0.1, 0.0, 0.1) for c in (-0.1, 0.0, 0.1) if (a, b, c) != (0.0, 0.0, 0.0)]


class _Timeout(Exception):
    pass


def _alarm(signum, frame):
    raise _Timeout()


class time_limit:
    def __init__(self, seconds):
        self.seconds = seconds

    def __enter__(self):
        try:
            self.old = signal.signal(signal.SIGALRM, _alarm)
            signal.setitimer(signal.ITIMER_REAL, self.seconds)
            self.armed = True
        except Exception:
            self.armed = False

    def __exit__(self, *a):
        if self.armed:
            signal.setitimer(signal.ITIMER_REAL, 0)
            signal.signal(signal.SIGALRM, self.old)
        return False


def fix_parallel(acc, mag):
    """Keep acc and mag at least 1 degree from parallel, by construction."""
    acc, mag = np.array(acc, dtype=float), np.array(mag, dtype=float)
    c = abs(float(np.dot(acc, mag)))/(np.linalg.norm(acc)*np.linalg.norm(mag))
    if c > math.cos(math.radians(1.0)):
        k = int(np.argmin(np.abs(acc)))
        e = np.zeros(3)
        e[k] = 1.0
        mag = np.linalg.norm(mag)*(0.6*e + 0.8*acc/np.linalg.norm(acc)*0.5)
        c2 = abs(float(np.dot(acc, mag)))/(np.linalg.norm(acc)*np.linalg.norm(mag))
        if c2 > math.cos(math.radians(1.0)):
            mag = np.linalg.norm(mag)*e
    return mag


def history_strategy(max_n):
    @st.composite
    def build(draw):
        fam = draw(st.sampled_from(['random', 'canonical', 'mixed']))
        n = draw(st.one_of(st.integers(2, max_n), st.integers(2, 8)))
        h = {'family': fam, 'n': n, 'seed': draw(st.integers(0, 2**31-1)),
             'acc_exp': draw(gen.fl(-3.0, 3.0)), 'mag_exp': draw(gen.fl(-3.0, 3.0)), 'gyr_exp': draw(gen.fl(-4.0, 1.0))}
        if fam != 'random':
            k = n if fam == 'canonical' else draw(st.integers(1, max(1, n//2)))
            h['canon'] = draw(st.lists(st.tuples(st.integers(0, 5), st.integers(0, 25), st.integers(0, 26), st.integers(0, 25)), min_size=k, max_size=k))
            h['pos'] = draw(st.lists(st.integers(0, n-1), min_size=k, max_size=k))
        return h
    return build()


def make_history(h):
    n = int(h['n'])
    rs = np.random.RandomState(int(h['seed']))
    d = rs.randn(n, 3)
    acc = d/np.linalg.norm(d, axis=1)[:, None]*10.0**float(h['acc_exp'])
    d = rs.randn(n, 3)
    mag = d/np.linalg.norm(d, axis=1)[:, None]*10.0**float(h['mag_exp'])
    d = rs.randn(n, 3)
    gyr = d/np.linalg.norm(d, axis=1)[:, None]*10.0**float(h['gyr_exp'])*rs.uniform(0.1, 1.0, (n, 1))
    if h['family'] != 'random':
        for j, (ia, ih, im, ig) in enumerate(h['canon']):
            pos = j if h['family'] == 'canonical' else int(h['pos'][j]) % n
            a = np.array(CANON_ACC[ia % 6], dtype=float)
            if im == 26:
                # level (or the drawn canonical gravity axis) at heading k*15 deg with a 60 deg dip
                hd = math.radians(15.0*(ih % 24))
                m = np.array([math.cos(hd)*0.5, -math.sin(hd)*0.5, math.sqrt(0.75)])*45.0
            else:
                m = np.array(CANON_MAG[im % 26], dtype=float)
            acc[pos], mag[pos], gyr[pos] = a, m, np.array(CANON_GYR[ig % 26], dtype=float)
    for k in range(n):
        mag[k] = fix_parallel(acc[k], mag[k])
    return gyr, acc, mag


_SPECS = None
_ROWS = None


def specs():
    global _SPECS
    if _SPECS is None:
        _SPECS = F.build_specs()
    return _SPECS


def rows():
    global _ROWS
    if _ROWS is None:
        _ROWS = list(E.build_rows())
    return _ROWS


N_SPECS = 15


def _rec_case(tier):
    max_n = 40 if tier == 'quick' else 400
    # the number of specs is fixed (asserted in selftest) so that the strategy does not import ahrs
    from vf import filters as F_
    return st.integers(0, N_SPECS-1).flatmap(lambda i: st.fixed_dictionaries({
        'spec': st.just(i), 'P': _param_strategy(i), 'hist': history_strategy(max_n),
        'frame': st.sampled_from(['NED', 'ENU']), 'dip': gen.fl(-80.0, 80.0),
        'rep': st.sampled_from(['quaternion', 'quaternion', 'rotmat', 'angles']),
        'integration': st.integers(0, 3).map(lambda k: k == 0)}))     # AngularRate's third documented method (batch only)


def _param_strategy(i):
    return specs()[i].params().map(lambda P: {k: (v.tolist() if isinstance(v, np.ndarray) else v) for k, v in P.items()})


def _valid_quats(ctx, tag, Q, n, fam):
    Q = np.asarray(Q)
    if np.iscomplexobj(Q):
        ctx.fail(f'{tag}|complex|{fam}', f'dtype {Q.dtype}')
        return
    if Q.dtype.kind not in 'fiu' or Q.ndim != 2 or Q.shape != (n, 4):
        ctx.fail(f'{tag}|shape|{fam}', f'shape {Q.shape} dtype {Q.dtype} for {n} samples')
        return
    Q = Q.astype(float)
    bad = ~np.all(np.isfinite(Q), axis=1)
    if bad.any():
        ctx.fail(f'{tag}|nonfinite|{fam}', f'{int(bad.sum())} of {n} rows, first at {int(np.argmax(bad))}')
        return
    e = np.abs(np.linalg.norm(Q, axis=1) - 1.0)
    if float(e.max()) > 1e-9:
        ctx.fail(f'{tag}|nonunit|{fam}', f'row {int(np.argmax(e))}: norm {np.linalg.norm(Q[int(np.argmax(e))])!r}')


def _valid_rotmats(ctx, tag, R, n, fam):
    R = np.asarray(R)
    if np.iscomplexobj(R) or R.shape != (n, 3, 3):
        ctx.fail(f'{tag}|shape|{fam}', f'shape {R.shape} dtype {R.dtype} for {n} samples')
        return
    R = R.astype(float)
    if not np.all(np.isfinite(R)):
        ctx.fail(f'{tag}|nonfinite|{fam}', '')
        return
    for k in range(n):
        if float(np.max(np.abs(R[k] @ R[k].T - np.identity(3)))) > 1e-9 or np.linalg.det(R[k]) <= 0:
            ctx.fail(f'{tag}|not_a_rotation|{fam}', f'row {k}: {R[k].tolist()}')
            return


def _valid_angles(ctx, tag, W, n, fam):
    W = np.asarray(W)
    if np.iscomplexobj(W) or W.shape != (n, 3):
        ctx.fail(f'{tag}|shape|{fam}', f'shape {W.shape} for {n} samples')
        return
    if not np.all(np.isfinite(W.astype(float))):
        ctx.fail(f'{tag}|nonfinite|{fam}', '')


def _guarded(ctx, tag, fam, f):
    try:
        with time_limit(10.0):
            return True, f()
    except _Timeout:
        ctx.fail(f'{tag}|hang|{fam}', 'no result within 10 s')
    except Exception as e:
        ctx.fail(f'{tag}|exception|{type(e).__name__}|{fam}', f'{type(e).__name__}: {e}'[:250])
    return False, None


def eval_recursive(case, ctx):
    spec = specs()[int(case['spec'])]
    hist = case['hist']
    fam = hist['family']
    gyr, acc, mag = make_history(hist)
    n = len(acc)
    frame = case['frame'] if case['frame'] in spec.frames else spec.frames[0]
    dip = float(case['dip'])
    P = F.revive_params(case['P'])
    tag = F.spec_key(spec) + (f'[{frame}]' if len(spec.frames) > 1 else '')
    ctx.label(f'family={fam}', f'filter={F.spec_key(spec)}')
    ctx.nt(n >= 3 and (fam != 'random' or bool(P)))
    rep = case['rep']
    if spec.name == 'AngularRate' and rep != 'quaternion':
        P = dict(P, representation=rep)
    if spec.name == 'AngularRate' and case.get('integration'):
        P = dict({k: v for k, v in P.items() if k != 'order'}, method='integration')
        tag += '[integration]'
        ctx.label('AngularRate_method=integration')
    ok, obj = _guarded(ctx, tag, fam, lambda: spec.build(gyr, acc, mag, frame, dip, P, None))
    if not ok:
        return
    if spec.name == 'AngularRate' and rep == 'rotmat':
        _valid_rotmats(ctx, tag + '[rotmat]', obj.R, n, fam)
        return
    if spec.name == 'AngularRate' and rep == 'angles':
        _valid_angles(ctx, tag + '[angles]', obj.W, n, fam)
        return
    if spec.name == 'Complementary':
        _valid_angles(ctx, tag + '.W', obj.W, n, fam)
    ok, Q = _guarded(ctx, tag + '.Q', fam, lambda: np.asarray(obj.Q))
    if ok:
        _valid_quats(ctx, tag, Q, n, fam)


def _single_case(tier):
    max_n = 12 if tier == 'quick' else 60
    return st.fixed_dictionaries({'hist': history_strategy(max_n), 'row': st.integers(0, 63), 'frame': st.sampled_from(['NED', 'ENU']),
                                  'dip': gen.fl(-80.0, 80.0), 'np_seed': st.integers(0, 2**31-1)})


def eval_single(case, ctx):
    hist = case['hist']
    fam = hist['family']
    gyr, acc, mag = make_history(hist)
    n = len(acc)
    R = rows()
    ctx.label(f'family={fam}')
    ctx.nt(n >= 3 and fam != 'random')
    for k in range(4):
        row = R[(int(case['row']) + 5*k) % len(R)]
        frame = case['frame'] if case['frame'] in row.frames else row.frames[0]
        tag = row.name + (f'[{frame}]' if len(row.frames) > 1 else '')
        np.random.seed(int(case['np_seed']))
        if row.batch is not None:
            call = lambda: row.batch(np.array(acc), np.array(mag) if row.uses_mag else None, frame, float(case['dip']))
        else:       # helper functions without an N-sample form: one call per sample
            call = lambda: np.array([np.asarray(row.single(np.array(acc[j]), np.array(mag[j]) if row.uses_mag else None, frame, float(case['dip']))) for j in range(n)])
        ok, out = _guarded(ctx, tag, fam, call)
        if not ok:
            continue
        if row.out == 'q':
            _valid_quats(ctx, tag, out, n, fam)
        elif row.out == 'R':
            _valid_rotmats(ctx, tag, out, n, fam)
        else:
            _valid_angles(ctx, tag, out, n, fam)


def selftest():
    oracle.selftest()
    from vf.core import HarnessError
    if len(specs()) != N_SPECS:
        raise HarnessError(f'filter table has {len(specs())} rows, C03 expects {N_SPECS}')


SUBCHECKS = {
    'recursive': Sub(_rec_case, eval_recursive, quick=16000, thorough=200000, budget_quick=60.0),
    'single': Sub(_single_case, eval_single, quick=10000, thorough=150000),
}
