"""C04 — single-frame estimators recover the attitude exactly from consistent data."""
from __future__ import annotations

import math
import numpy as np
from hypothesis import strategies as st

from vf.core import Sub, HarnessError
from vf import gen, oracle, estimators as E

PROPERTY = 'C04'
LEVEL = 'exploration'
RULE = ('True attitude q*: class A = the shared unit-quaternion mixture over all of SO(3) (level, inverted, vertical, half-turn '
        'poses, axis-angle with log-uniform angles); class B (general position) = four magnitudes in [0.05,1] with random signs, '
        'normalised, kept when every component >= 0.05, angle <= pi-0.1, body z and x axes >= 3 deg from vertical. Magnetic dip '
        'in [-80,80] deg, frame NED/ENU where selectable, positive scalings s_a, s_m in 10**U(-2,3). Measurements are the exact '
        'images s*R(q*)^T ref (or s*R(q*) ref) of each estimator\'s own reference vectors in the direction it documents (table '
        'in vf/estimators.py, self-tested). Every row is run through its per-sample entry point, its N=2 batch constructor and '
        'its one-sample constructor call; TRIAD, whose docstrings re-assign v1/v2 on an existing object, also through one object that has already estimated another pose under other references (other frame or dip). Oracle: geodesic angle between the estimate and q* <= 1e-7 rad (tilt-only rows: angle '
        'between gravity images); singularity-free rows on class A and B, closed-form/iterative rows on class B. OLEQ\'s random start '
        'vector is seeded from the case. Non-trivial: q* more than 5 deg from identity, '
        '|dip| >= 5 deg, s_a or s_m outside [0.5,2]; distinct = case hash.')
ASSUMPTIONS = ['direction/reference table of vf/estimators.py (asserted exact on fixed generic attitudes at start-up)',
               'OLEQ: numpy global generator seeded per call']
REQUIRED_LABELS = ['exact:reused_object', 'exact:weights=default', 'exact:weights=sum1', 'exact:weights=free', 'exact:class=A', 'exact:class=B', 'exact:frame=ENU', 'exact:pose=level', 'exact:pose=inverted', 'exact:pose=half_turn']

TOL = 1e-7
_ROWS = None


def rows():
    global _ROWS
    if _ROWS is None:
        _ROWS = E.build_rows()
    return _ROWS


@st.composite
def class_b_quaternion(draw):
    for _ in range(20):
        mags = [draw(gen.fl(0.05, 1.0)) for _ in range(4)]
        sg = [draw(gen.signs()) for _ in range(4)]
        q = np.array([m*s for m, s in zip(mags, sg)])
        q = q/np.linalg.norm(q)
        if is_class_b(q):
            return [float(c) for c in q]
    return [0.5, 0.5, -0.5, 0.5][:0] or [0.6, 0.3, -0.5, 0.5477225575051661]


def is_class_b(q):
    q = np.asarray(q, dtype=float)
    if np.min(np.abs(q)) < 0.05:
        return False
    R = oracle.q2R(q)
    lim = math.cos(math.radians(3.0))
    # body z axis and body x axis at least 3 degrees from the vertical (both conventions of "body axis")
    return abs(R[2, 2]) <= lim and abs(R[2, 0]) <= lim and abs(R[0, 2]) <= lim


def _case():
    @st.composite
    def build(draw):
        kind = draw(st.sampled_from(['A', 'A', 'B', 'B', 'B']))
        q = draw(st.one_of(gen.unit_quaternions(allow_denormal=False), gen.unit_quaternions(allow_denormal=False), gen.pose_quaternions())) if kind == 'A' else draw(class_b_quaternion())
        return {'q': q, 'dip': draw(st.one_of(gen.fl(-80.0, 80.0), st.sampled_from([0.0, 60.0, -60.0, 80.0, -80.0, 5.0]))),
                'frame': draw(st.sampled_from(['NED', 'ENU'])),
                's_a': draw(st.one_of(gen.log_uniform(-2, 3), st.just(1.0), st.just(9.81))),
                's_m': draw(st.one_of(gen.log_uniform(-2, 3), st.just(1.0), st.just(50.0))),
                'weights': draw(st.one_of(st.none(), st.none(), st.tuples(gen.log_uniform(-1, 0.5), gen.log_uniform(-1, 0.5)).map(list),
                                          gen.fl(0.05, 0.95).map(lambda w: [w, 1.0 - w]))),
                'q2': draw(class_b_quaternion()), 'np_seed': draw(st.integers(0, 2**31-1)), 'idx': draw(st.integers(0, 1))}
    return build()


def oleq_rate(w, dip):
    a0, a1 = (1.0, 1.0) if w is None else (float(w[0]), float(w[1]))
    lam2 = math.sqrt(max(a0*a0 + a1*a1 - 2.0*a0*a1*math.cos(2.0*math.radians(dip)), 0.0))
    return (1.0 + lam2)/(1.0 + a0 + a1)


def _pose(q):
    R = oracle.q2R(q)
    ang = oracle.qangle([1, 0, 0, 0], q)
    if abs(R[2, 2] + 1) < 1e-12:
        return 'inverted'           # a half-turn about a horizontal axis
    if ang > math.pi - 1e-6:
        return 'half_turn'
    if abs(R[2, 2] - 1) < 1e-12:
        return 'level'
    if abs(R[2, 2]) < 1e-12:
        return 'z_horizontal'
    return 'generic'


def evaluate(case, ctx):
    q = np.array(case['q'], dtype=float)
    q = q/np.linalg.norm(q)
    dip = float(case['dip'])
    s_a, s_m = float(case['s_a']), float(case['s_m'])
    B = is_class_b(q)
    pose = _pose(q)
    ctx.label('class=B' if B else 'class=A', f'pose={pose}')
    ctx.nt(oracle.qangle([1, 0, 0, 0], q) > math.radians(5) and abs(dip) >= 5 and not (0.5 <= s_a <= 2 and 0.5 <= s_m <= 2))
    q2 = np.array(case['q2'], dtype=float)
    idx = int(case['idx'])
    worst = 0.0
    w = case.get('weights')
    E.set_weights(w)
    ctx.label('weights=default' if w is None else 'weights=sum1' if abs(w[0] + w[1] - 1.0) < 1e-12 else 'weights=free')
    for row in rows():
        if row.cls == 'B' and not B:
            continue
        frame = case['frame'] if case['frame'] in row.frames else row.frames[0]
        if frame == 'ENU':
            ctx.label('frame=ENU')
        if row.name == 'OLEQ' and oleq_rate(w, dip) > 0.995:
            # OLEQ is a power iteration on 0.5*(I + sum a_i W_i): its two largest eigenvalues are (1+a0+a1)/2 and
            # (1+sqrt(a0^2+a1^2-2 a0 a1 cos 2 dip))/2; when their ratio is this close to 1 (one weight dominating, references
            # almost parallel) it needs more than its 10000-step cap to reach 1e-7: a speed limit, not an attitude error.
            ctx.label('oleq_slow_convergence_unjudged')
            continue
        acc, mag = E.measurements(row, q, frame, dip, s_a, s_m)
        acc2, mag2 = E.measurements(row, q2, frame, dip, s_a, s_m)
        tol = TOL
        region = 'B' if B else 'A:' + pose
        entries = [('estimate', lambda: row.single(np.array(acc), None if mag is None else np.array(mag), frame, dip))]
        if row.batch is not None:
            ACC = np.array([acc2, acc2])
            ACC[idx] = acc
            MAG = None
            if mag is not None:
                MAG = np.array([mag2, mag2])
                MAG[idx] = mag
            entries.append(('batch', lambda: np.asarray(row.batch(ACC, MAG, frame, dip))[idx]))
            if row.one_sample:
                entries.append(('one_sample', lambda: np.asarray(row.batch(np.array(acc), None if mag is None else np.array(mag), frame, dip))))
        if row.reused is not None:
            # one object that has already estimated another pose under other references (the other frame, another dip)
            frame0 = [fr for fr in row.frames if fr != frame][0] if idx and len(row.frames) > 1 else frame
            dip0 = -dip if idx else (dip + 37.0 if dip < 0 else dip - 37.0)
            acc0, mag0 = E.measurements(row, q2, frame0, dip0, s_a, s_m)
            entries.append(('reused_object', lambda: row.reused(np.array(acc), np.array(mag), frame, dip, np.array(acc0), np.array(mag0), frame0, dip0)))
            ctx.label('reused_object')
        for ename, f in entries:
            if row.seeded:
                np.random.seed(int(case['np_seed']))
                if ename == 'batch' and idx == 1:
                    continue        # the second row of a batch consumes a different part of the random stream
            ok, out = ctx.call(f'{row.name}|{ename}', f)
            if not ok:
                continue
            o = np.asarray(out)
            if np.iscomplexobj(o):
                if np.max(np.abs(o.imag)) > 0:
                    ctx.fail(f'{row.name}|{ename}|complex', f'{o!r}')
                    continue
                o = o.real
            want = {'q': (4,), 'R': (3, 3), 'angles': (3,)}[row.out]
            if o.shape != want or not np.all(np.isfinite(np.asarray(o, dtype=float))):
                ctx.fail(f'{row.name}|{ename}|bad_output|{region}', f'shape {o.shape}: {o!r}'[:200])
                continue
            if row.out == 'q' and abs(float(np.linalg.norm(np.asarray(o, dtype=float))) - 1.0) > 1e-9:
                ctx.fail(f'{row.name}|{ename}|nonunit_output|{region}', f'{np.asarray(o).tolist()} for q*={q.tolist()}')
                continue
            err = E.attitude_error(row, o, q, frame)
            worst = max(worst, err/tol)
            if err > tol:
                if row.out == 'q' and np.array_equal(np.asarray(o, dtype=float), [1.0, 0, 0, 0]):
                    kind = 'identity_returned'
                else:
                    kind = 'inexact' if err < 0.5 else 'wrong'
                ctx.fail(f'{row.name}|{ename}|{kind}|{region}',
                         f'error {err:.3e} rad (tol {tol:.1e}) q*={q.tolist()} dip={dip!r} frame={frame} s_a={s_a!r} s_m={s_m!r}')
    ctx.target(worst, 'rel_err')


def selftest():
    # The direction/reference table was validated against the unchanged tree during development (DESIGN.md section 3a);
    # it is deliberately NOT re-validated against the code under test here: a broken estimator must surface as a
    # VIOLATION of the property, not as a harness error.
    oracle.selftest()


SUBCHECKS = {'exact': Sub(lambda tier: _case(), evaluate, quick=10000, thorough=400000)}
