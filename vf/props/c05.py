"""C05 — recursive filters converge to the sensed attitude from any initial orientation."""
from __future__ import annotations

import math
import numpy as np
from hypothesis import strategies as st

from vf.core import Sub
from vf import gen, oracle, filters as F
from vf.props.c03 import specs, N_SPECS

PROPERTY = 'C05'
LEVEL = 'exploration'
RULE = ('A motionless sensor: true attitude q* (class-A mixture incl. level / inverted / vertical poses), magnetic dip in [-70,70], '
        'frame NED/ENU where selectable; accelerometer and magnetometer rows are the exact images of the FILTER\'S OWN reference '
        'vectors (shared filter table) under q*, scaled by 9.81 and 50; gyroscope rows are N(0, sigma^2) noise with sigma in '
        '[1e-6,1e-3] rad/s from a PRNG seeded by a Hypothesis-drawn integer (never exactly zero). The initial attitude is q* '
        'composed with a rotation of theta0 in [0,175] deg (quick: <= 120) about a drawn axis, given through q0 / w0 where the '
        'filter honours it and through a first sample that is the image of the initial attitude where it does not (Madgwick-MARG, '
        'FKF). Gains are the defaults or drawn inside each filter\'s stable range. Oracle per (filter, architecture): horizon H_f '
        'from the filter\'s own rate bound, err(H) <= tau_f, max err over the last 10% <= tau_f, err(H) <= max(err(0), tau_f), '
        'A second sub-check (fast) gives the filters with horizons of a few thousand samples (AQUA, ROLEQ, Complementary, Madgwick with gain >= 0.3 at 20 Hz) four times as many starts, up to 175 deg in both tiers, half of them beyond 90 deg and some about the vertical axis (pure heading error); one run in four of Complementary and ROLEQ lasts eight horizons (the stays-there clause on a long record). '
        'error = geodesic angle to q* for MARG and angle between gravity images for IMU/acc-only variants (table HORIZON below, '
        'calibrated on the unchanged tree). Non-trivial: theta0 >= 30 deg; distinct = case hash.')
ASSUMPTIONS = ['"within a bounded number of samples" is checked as a safety property at a per-filter horizon derived from its correction rate',
               'tau_f = 10 x the worst converged error observed over >= 5 seeds on the unchanged tree, clipped to [1e-4, 2e-2] rad (FKF: 0.15 rad, its gain decays like 1/t)']
REQUIRED_LABELS = ['fast:stays_for_eight_horizons', 'fast:theta0>=90', 'fast:filter=AQUA-MARG', 'converge:theta0>=90', 'converge:arch=MARG', 'converge:arch=IMU', 'converge:gains=custom', 'converge:gains=default']

G, B = 9.81, 50.0


def _gains(key):
    """Stable-range gain strategies per filter (dict of constructor kwargs) and the matching time step."""
    dt = st.sampled_from([0.01, 0.02, 0.05])
    if key.startswith('Madgwick'):
        g = 'gain_imu' if key.endswith('IMU') else 'gain_marg'
        return st.one_of(st.tuples(st.just({}), st.just(0.01)),
                         st.tuples(gen.fl(0.1, 1.0).map(lambda b: {'gain': b}), dt),
                         st.tuples(gen.fl(0.1, 1.0).map(lambda b: {g: b}), dt))
    if key.startswith('Mahony'):
        return st.one_of(st.tuples(st.just({}), st.just(0.01)),
                         st.tuples(st.tuples(gen.fl(1.0, 2.0), gen.fl(0.05, 0.3)).map(lambda t: {'k_P': t[0], 'k_I': t[1]}), dt))
    if key.startswith('EKF'):
        return st.one_of(st.tuples(st.just({}), st.just(0.01)),
                         st.tuples(st.tuples(gen.log_uniform(-2, 0), gen.log_uniform(-2, 0), gen.log_uniform(-2, 0)).map(
                             lambda t: {'noises': [t[0], t[1], t[2]]}), dt))
    if key.startswith('AQUA'):
        return st.one_of(st.tuples(st.just({}), st.just(0.01)),
                         st.tuples(st.tuples(gen.fl(0.01, 0.5), gen.fl(0.01, 0.5)).map(lambda t: {'alpha': t[0], 'beta': t[1]}), dt))
    if key.startswith('Complementary'):
        return st.one_of(st.tuples(st.just({}), st.just(0.01)), st.tuples(gen.fl(0.5, 0.98).map(lambda g_: {'gain': g_}), dt))
    if key.startswith('ROLEQ'):
        return st.one_of(st.tuples(st.just({}), st.just(0.01)),
                         st.tuples(st.lists(gen.fl(0.3, 2.0), min_size=2, max_size=2).map(lambda w: {'weights': w}), dt))
    if key.startswith('FKF'):
        return st.one_of(st.tuples(st.just({}), st.just(0.01)),
                         st.tuples(st.tuples(gen.log_uniform(-3, -1), gen.log_uniform(-3, -1)).map(lambda t: {'sigma_a': t[0], 'sigma_m': t[1]}), dt))
    return st.tuples(st.just({}), st.just(0.01))


CONVERGING = None


def converging():
    global CONVERGING
    if CONVERGING is None:
        CONVERGING = [i for i, s in enumerate(specs()) if s.converges and s.arch != 'GYR']
    return CONVERGING


# indices of the converging specs are fixed by the table order (asserted in selftest)
CONV_IDX = [0, 1, 2, 3, 4, 5, 6, 7, 8, 10, 11, 12, 13]
CONV_KEYS = ['Madgwick-IMU', 'Madgwick-MARG', 'Mahony-IMU', 'Mahony-MARG', 'EKF-IMU', 'EKF-MARG', 'UKF-IMU', 'AQUA-IMU', 'AQUA-MARG',
             'ROLEQ-MARG', 'FKF-MARG', 'Complementary-IMU', 'Complementary-MARG']


def _case(tier):
    tmax = 120.0 if tier == 'quick' else 175.0

    @st.composite
    def build(draw):
        k = draw(st.sampled_from(list(range(len(CONV_IDX)))))
        P, dt = draw(_gains(CONV_KEYS[k]))
        theta0 = draw(st.one_of(gen.fl(0.0, tmax), gen.fl(30.0, tmax), st.sampled_from([tmax, 90.0, 0.0])))
        if CONV_KEYS[k].startswith('Madgwick') and not P:
            theta0 = min(theta0, 150.0)       # default gain 0.033 rad/s at 100 Hz: beyond 150 deg the escape time exceeds the 30 000-sample cap
        return {'spec': CONV_IDX[k], 'q': draw(gen.unit_quaternions(allow_denormal=False)),
                'axis': draw(gen.axes()), 'theta0': theta0,
                'dip': draw(gen.fl(-70.0, 70.0)), 'frame': draw(st.sampled_from(['NED', 'ENU'])),
                'P': P, 'dt': dt, 'sigma_exp': draw(gen.fl(-6.0, -3.0)), 'seed': draw(st.integers(0, 2**31-1))}
    return build()


FAST_KEYS = ['AQUA-IMU', 'AQUA-MARG', 'ROLEQ-MARG', 'Complementary-IMU', 'Complementary-MARG', 'Madgwick-IMU', 'Madgwick-MARG']


def _case_fast(tier):
    """The filters whose horizon is a few thousand samples get many more starts, up to 175 deg in both tiers (the first sub-check
    spends its budget on the slow ones: 12 000 - 30 000 samples per run)."""
    @st.composite
    def build(draw):
        key = draw(st.sampled_from(FAST_KEYS))
        k = CONV_KEYS.index(key)
        if key.startswith('Madgwick'):
            g = 'gain_imu' if key.endswith('IMU') else 'gain_marg'
            P, dt = {draw(st.sampled_from(['gain', g])): draw(gen.fl(0.3, 1.0))}, 0.05
        else:
            P, dt = draw(_gains(key))
        theta0 = draw(st.one_of(gen.fl(0.0, 175.0), gen.fl(90.0, 175.0), gen.fl(90.0, 175.0), st.sampled_from([175.0, 90.0, 120.0])))
        # "... and then stays": one run in four of the batch-cheap filters goes on for eight horizons
        stay = 8 if key.startswith(('Complementary', 'ROLEQ')) and draw(st.integers(0, 3)) == 0 else 1
        return {'stay': stay, 'spec': CONV_IDX[k], 'q': draw(gen.unit_quaternions(allow_denormal=False)),
                'axis': draw(st.one_of(gen.axes(), st.sampled_from([[0.0, 0.0, 1.0], [0.0, 0.0, -1.0]]))), 'theta0': theta0,
                'dip': draw(gen.fl(-70.0, 70.0)), 'frame': draw(st.sampled_from(['NED', 'ENU'])),
                'P': P, 'dt': dt, 'sigma_exp': draw(gen.fl(-6.0, -3.0)), 'seed': draw(st.integers(0, 2**31-1))}
    return build()


# (samples per radian of initial error at correction rate 1 rad/s..., fixed extra samples, tolerance) -- see horizon()
TAU = {
    # 10 x the worst converged error over 12 seeds x 80 runs on the unchanged tree (in comments), clipped to [1e-4, 2e-2]
    'Madgwick-IMU': 2e-2, 'Madgwick-MARG': 2e-2,          # overridden by tolerance(): max(2e-3, 4 beta dt)
    'Mahony-IMU': 2e-2, 'Mahony-MARG': 2e-2,              # 1.7e-3 / 3.9e-3 (slow heading loop)
    'EKF-IMU': 2e-3, 'EKF-MARG': 2e-3,                    # 1.2e-4 / 9.7e-5
    'UKF-IMU': 2e-2,                                      # does not converge: see known findings
    'AQUA-IMU': 2e-3, 'AQUA-MARG': 3e-3,                  # 1.6e-4 / 2.3e-4
    'ROLEQ-MARG': 2e-3,                                   # 1.6e-4
    'FKF-MARG': 1.5e-1,                                   # 4.5e-2 at 20 000 samples with 1e-3 rad/s gyro noise: the Kalman gain decays like 1/t (power-law tail t^-0.3); a wrong-sign correction ends near pi
    'Complementary-IMU': 6e-4, 'Complementary-MARG': 4e-4,  # 5.6e-5 / 3.2e-5
}


def tolerance(key, P, dt, sigma=1e-3):
    if key.startswith('Madgwick'):
        beta = P.get('gain', P.get('gain_imu' if key.endswith('IMU') else 'gain_marg', 0.033 if key.endswith('IMU') else 0.041))
        return max(2e-3, 4.0*beta*dt)         # limit cycle of the fixed-length gradient step: amplitude ~ beta*dt
    if key.startswith('Complementary'):
        g = P.get('gain', 0.9)
        return TAU[key] + 3.0*sigma*dt*g/max(1.0 - g, 1e-3)   # steady-state response to the gyro noise
    return TAU[key]


def horizon(key, P, dt, theta0, tier):
    """Number of samples granted, from each filter's own correction-rate bound."""
    if key.startswith('Madgwick'):
        beta = P.get('gain', P.get('gain_imu' if key.endswith('IMU') else 'gain_marg', 0.033 if key.endswith('IMU') else 0.041))
        # The normalised gradient step moves the quaternion by beta*dt per sample, but next to the antipodal (unstable)
        # attitude almost all of it is radial: the tangential rate is ~ beta sin(theta)/4, so the escape time grows like
        # (4/beta) ln tan(theta0/2).  Horizon = 6/(beta dt) (1 + ln(1 + tan(theta0/2))) + 800 samples.
        return int(6.0/(beta*dt)*(1.0 + math.log(1.0 + math.tan(min(theta0, 3.06)/2.0)))) + 800
    if key.startswith('Mahony'):
        kp, ki = P.get('k_P', 1.0), P.get('k_I', 0.3)
        # rate ~k_P with a slow start next to 180 deg, plus the decay of the bias the integrator winds up during the large-error
        # transient (time constant k_P/k_I seconds): with k_I = 0.01 that alone takes more than the 30 000-sample cap (seen in the
        # thorough tier: 0.03 rad left after 24 000 samples), so k_I is drawn from [0.05, 0.3]
        return int(200.0/(kp*dt)) + 5000 + int(2.5*kp/(ki*dt))
    if key.startswith('EKF'):
        return 12000
    if key.startswith('UKF'):
        return 6000
    if key.startswith('AQUA'):
        a = min(P.get('alpha', 0.01), P.get('beta', 0.01))
        return int(25.0/a) + 500                          # geometric with ratio (1 - alpha) per sample
    if key.startswith('ROLEQ'):
        return 600
    if key.startswith('FKF'):
        return 20000                                      # Kalman gain decays like 1/t: power-law convergence
    if key.startswith('Complementary'):
        g = P.get('gain', 0.9)
        return int(40.0/max(1.0 - g, 1e-3)) + 200
    return 3000


def simulate(case, tier='quick', H=None):
    spec = specs()[int(case['spec'])]
    key = F.spec_key(spec)
    frame = case['frame'] if case['frame'] in spec.frames else spec.frames[0]
    dip = float(case['dip'])
    q_true = oracle.qnormalize(np.array(case['q'], dtype=float))
    theta0 = math.radians(float(case['theta0']))
    q_init = oracle.qmul(q_true, oracle.axang2q(case['axis'], theta0))        # sensor->earth attitudes
    P = F.revive_params(case['P'])
    dt = float(case['dt'])
    n = H if H is not None else horizon(key, case['P'], dt, theta0, tier)
    n = int(min(n, 30000))
    acc1, mag1 = F.measurements(spec, q_true, frame, dip, G, B)
    rs = np.random.RandomState(int(case['seed']))
    gyr = rs.randn(n, 3)*10.0**float(case['sigma_exp'])
    gyr[np.linalg.norm(gyr, axis=1) == 0] = [1e-9, 0, 0]
    acc = np.tile(acc1, (n, 1))
    mag = np.tile(mag1 if mag1 is not None else np.array([1.0, 0, 0]), (n, 1))
    # F.measurements renders in the filter's own direction (R^T ref or R ref), so the filter should report q_true itself
    est_true, est_init = q_true, q_init
    q0 = None
    if spec.q0 == 'q0':
        q0 = est_init
    elif spec.q0 == 'w0':
        q0 = oracle.q2rpy(est_init)
    else:
        # the constructor derives its start from the first sample: make that sample the image of the initial attitude
        a0, m0 = F.measurements(spec, q_init, frame, dip, G, B)
        acc[0] = a0
        if m0 is not None:
            mag[0] = m0
    Pk = dict(P, Dt=dt)
    obj = spec.build(gyr, acc, mag, frame, dip, Pk, q0)
    Q = np.array(np.asarray(spec.Q(obj)), dtype=float)
    return spec, key, frame, Q, est_true, n


def errors(spec, Q, est_true, frame, idx):
    return [F.attitude_error(spec, Q[i], est_true, frame) for i in idx]


def evaluate(case, ctx):
    spec = specs()[int(case['spec'])]
    key = F.spec_key(spec)
    theta0 = float(case['theta0'])
    ctx.label(f'filter={key}', f'arch={spec.arch}', 'gains=custom' if case['P'] else 'gains=default')
    if theta0 >= 90:
        ctx.label('theta0>=90')
    ctx.nt(theta0 >= 30)
    tau = tolerance(key, case['P'], float(case['dt']), 10.0**float(case['sigma_exp']))
    # Most runs are converged long before the horizon their filter is granted (the horizon is sized for the slowest start).  A first
    # attempt with one eighth of it is accepted when it already satisfies every clause (error at the end and over its last 10% below
    # tau, not above the initial error); otherwise the full horizon is run and judged.  Same data: the short run is a prefix.
    H_full = int(min(horizon(key, case['P'], float(case['dt']), math.radians(theta0), 'quick'), 30000))
    attempts = [max(600, H_full//8), H_full] if H_full >= 4800 else [H_full]
    stay = int(case.get('stay', 1))
    if stay > 1:
        ctx.label('stays_for_eight_horizons')
        attempts = [int(min(H_full*stay, 30000))]
    for attempt, H in enumerate(attempts):
        try:
            spec, key, frame, Q, est_true, n = simulate(case, H=H)
        except Exception as e:
            ctx.fail(f'{key}|exception|{type(e).__name__}', f'{type(e).__name__}: {e}'[:200])
            return
        if attempt == len(attempts) - 1:
            break
        if Q.shape == (n, 4) and np.all(np.isfinite(Q)):
            tail_ = list(range(int(0.9*n), n, max(1, n//400)))
            e0_, eH_ = errors(spec, Q, est_true, frame, [0, n-1])
            if eH_ <= tau and max(errors(spec, Q, est_true, frame, tail_)) <= tau and eH_ <= max(e0_, tau) and e0_ <= math.radians(175.0) + 1e-9:
                ctx.label('converged_within_an_eighth_of_the_horizon')
                break
    if Q.shape != (n, 4) or not np.all(np.isfinite(Q)):
        ctx.fail(f'{key}|invalid_output', f'shape {Q.shape}, finite {bool(np.all(np.isfinite(Q)))}')
        return
    tail = list(range(int(0.9*n), n, max(1, n//400)))
    e0, eH = errors(spec, Q, est_true, frame, [0, n-1])
    etail = max(errors(spec, Q, est_true, frame, tail))
    if e0 > math.radians(175.0) + 1e-9:
        # the property quantifies over initial attitudes up to 175 deg from the truth; where the start is derived from the
        # first sample (Madgwick-MARG, FKF: e-compass through a closed-form matrix conversion) a half-turn first attitude can
        # come out as the identity, i.e. beyond 175 deg from the truth: counted, not judged
        ctx.label('effective_start_beyond_175deg')
        ctx.exclude(f'{key}: constructor-derived start more than 175 deg from the truth')
        return
    ctx.target(max(eH, etail)/tau, 'final_err')
    region = 'theta0<=90' if theta0 <= 90 else 'theta0>90'
    if abs(float(oracle.qnormalize(np.array(case['q'], dtype=float))[0])) < 1e-3:
        region += '|half_turn_truth'
    gains = 'custom' if case['P'] else 'default'
    if eH > tau:
        ctx.fail(f'{key}|not_converged|{gains}|{region}', f'error {eH:.3e} rad after {n} samples from {math.radians(theta0):.3f} rad (tau {tau}) params {case["P"]} dt {case["dt"]} frame {frame}')
    elif etail > tau:
        ctx.fail(f'{key}|does_not_stay|{gains}|{region}', f'max error over the last 10% {etail:.3e} rad (tau {tau})')
    if eH > max(e0, tau):
        ctx.fail(f'{key}|final_error_exceeds_initial|{gains}|{region}', f'{eH:.3e} > initial {e0:.3e}')


def selftest():
    oracle.selftest()
    from vf.core import HarnessError
    keys = [F.spec_key(specs()[i]) for i in CONV_IDX]
    if keys != CONV_KEYS:
        raise HarnessError(f'filter table order changed: {keys}')


SUBCHECKS = {'converge': Sub(_case, evaluate, quick=1000, thorough=30000, budget_quick=100.0, budget_thorough=1500.0),
             'fast': Sub(_case_fast, evaluate, quick=1600, thorough=40000, budget_quick=60.0, budget_thorough=900.0)}
