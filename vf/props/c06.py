"""C06 — batch run equals sample-by-sample streaming; filters deterministic and isolated."""
from __future__ import annotations

import math
import numpy as np
from hypothesis import strategies as st

from vf.core import Sub
from vf import gen, oracle, filters as F
from vf.props.c03 import history_strategy, make_history, specs, N_SPECS, _param_strategy

PROPERTY = 'C06'
LEVEL = 'exploration'
RULE = ('stream: sensor histories as in C03 (random / canonical / mixed rows, N in 2..60) and a configuration from the shared '
        'recursive-filter table (Madgwick IMU/MARG, Mahony IMU/MARG, EKF IMU/MARG in NED and ENU, UKF, AQUA IMU/MARG, Fourati, ROLEQ, '
        'AngularRate closed/series; valid parameters or the defaults): the batch constructor\'s N attitudes must equal, to 1e-12, the '
        'loop q_t = F(**kw).update*(q_(t-1), sample_t) started from the batch run\'s own first row; repeating the batch run and the '
        'streaming run (same inputs, same NumPy seed) must be byte-identical. isolation: a generated schedule (the op list of a '
        'rule-based machine: step_A, step_B, rebuild_A, batch_again) interleaves two live instances A and B of one filter type, each '
        'with its own history; every output must be byte-identical to that of a shadow instance driven alone. Non-trivial: N >= 5 '
        'and (MARG or non-default parameters); for isolation >= 3 switches between A and B; distinct = case hash.')
ASSUMPTIONS = ['the initial attitude of the streaming run is the first row of the batch run (removes any dependence on constructor initialisation)',
               'FKF and Complementary offer no per-sample update method: only their repeatability is checked']
REQUIRED_LABELS = ['isolation:ukf_instances_differ_in_beta_only', 'stream:arch=MARG', 'stream:arch=IMU', 'stream:params=default', 'stream:params=custom', 'isolation:switches>=3']


def _stream_case(tier):
    return st.integers(0, N_SPECS-1).flatmap(lambda i: st.fixed_dictionaries({
        'spec': st.just(i), 'P': st.one_of(st.just({}), _param_strategy(i)), 'hist': history_strategy(60),
        'frame': st.sampled_from(['NED', 'ENU']), 'dip': gen.fl(-80.0, 80.0), 'np_seed': st.integers(0, 2**31-1)}))


def _P(case):
    return F.revive_params(case['P'])


def _bytes(x):
    return np.ascontiguousarray(np.asarray(x, dtype=float)).tobytes()


def _run_batch(spec, gyr, acc, mag, frame, dip, P, seed):
    np.random.seed(seed)
    obj = spec.build(gyr, acc, mag, frame, dip, P, None)
    return np.array(np.asarray(spec.Q(obj)), dtype=float)


def _run_stream(spec, gyr, acc, mag, frame, dip, P, q0, seed):
    np.random.seed(seed)
    obj, step = spec.stream(frame, dip, P)
    out = [np.array(q0, dtype=float)]
    q = np.array(q0, dtype=float)
    for t in range(1, len(gyr)):
        q = np.array(np.asarray(step(q, gyr[t], acc[t], mag[t])), dtype=float)
        out.append(q)
    return np.array(out)


def eval_stream(case, ctx):
    spec = specs()[int(case['spec'])]
    hist = case['hist']
    gyr, acc, mag = make_history(hist)
    n = len(acc)
    frame = case['frame'] if case['frame'] in spec.frames else spec.frames[0]
    dip = float(case['dip'])
    P = _P(case)
    seed = int(case['np_seed'])
    tag = F.spec_key(spec) + (f'[{frame}]' if len(spec.frames) > 1 else '')
    ctx.label(f'arch={spec.arch}', 'params=custom' if P else 'params=default', f'filter={F.spec_key(spec)}')
    ctx.nt(n >= 5 and (spec.arch == 'MARG' or bool(P)))
    try:
        Q1 = _run_batch(spec, gyr, acc, mag, frame, dip, P, seed)
    except Exception as e:
        ctx.label('batch_raises')        # validity of the batch run is C03's business
        return
    if Q1.shape != (n, 4) or not np.all(np.isfinite(Q1)):
        ctx.label('batch_invalid')
        return
    # repeatability of the batch run
    ok, Q2 = ctx.call(f'{tag}|batch_repeat', lambda: _run_batch(spec, gyr, acc, mag, frame, dip, P, seed))
    if ok and _bytes(Q2) != _bytes(Q1):
        ctx.fail(f'{tag}|batch_not_repeatable', f'max diff {np.max(np.abs(Q2-Q1)):.3e}')
    if spec.stream is None:
        return
    ok, S1 = ctx.call(f'{tag}|stream', lambda: _run_stream(spec, gyr, acc, mag, frame, dip, P, Q1[0], seed))
    if not ok:
        return
    if S1.shape != Q1.shape:
        ctx.fail(f'{tag}|stream_shape', f'{S1.shape}')
        return
    d = np.abs(S1 - Q1)
    if not np.all(np.isfinite(S1)) or float(d.max()) > 1e-12:
        t = int(np.argmax(d.max(axis=1))) if np.all(np.isfinite(S1)) else -1
        ctx.fail(f"{tag}|stream_differs_from_batch|{'default' if not P else 'custom'}",
                 f'max diff {float(np.nanmax(d)):.3e} first large at sample {t} (N={n}, params {case["P"]})')
    ok, S2 = ctx.call(f'{tag}|stream_repeat', lambda: _run_stream(spec, gyr, acc, mag, frame, dip, P, Q1[0], seed))
    if ok and _bytes(S2) != _bytes(S1):
        ctx.fail(f'{tag}|stream_not_repeatable', '')


# ------------------------------------------------------------------ isolation (two live instances + shadows)

def _iso_case(tier):
    streamable = [i for i in range(N_SPECS)]
    return st.sampled_from(streamable).flatmap(lambda i: st.fixed_dictionaries({
        'spec': st.just(i), 'PA': st.one_of(st.just({}), _param_strategy(i)), 'PB': st.one_of(st.just({}), _param_strategy(i)),
        'histA': history_strategy(20), 'histB': history_strategy(20),
        'frame': st.sampled_from(['NED', 'ENU']), 'dip': gen.fl(-80.0, 80.0), 'np_seed': st.integers(0, 2**31-1),
        'share_params': st.booleans(),
        # UKF: the second instance differs from the first in beta only (a documented constructor parameter that the shared filter
        # table does not vary): whatever two instances with equal alpha and kappa may share, it is not the covariance weights
        'ukf_beta': st.one_of(st.none(), gen.fl(0.0, 4.0)),
        'schedule': st.lists(st.sampled_from(['A', 'B', 'A', 'B', 'rebuild_A', 'batch_again']), min_size=2, max_size=40)}))


class _Live:
    """One streaming instance fed from its own history, restartable."""

    def __init__(self, spec, hist, frame, dip, P, q_start):
        self.spec, self.hist, self.frame, self.dip, self.P = spec, hist, frame, dip, P
        self.q_start = np.array(q_start, dtype=float)
        self.rebuild()

    def rebuild(self):
        self.obj, self.step = self.spec.stream(self.frame, self.dip, self.P)
        self.q = self.q_start.copy()
        self.t = 1
        self.out = []

    def advance(self):
        gyr, acc, mag = self.hist
        if self.t >= len(gyr):
            return None
        self.q = np.array(np.asarray(self.step(self.q, gyr[self.t], acc[self.t], mag[self.t])), dtype=float)
        self.t += 1
        self.out.append(self.q.copy())
        return self.q


def eval_isolation(case, ctx):
    spec = specs()[int(case['spec'])]
    if spec.stream is None:
        ctx.label('no_stream_api')
        return
    frame = case['frame'] if case['frame'] in spec.frames else spec.frames[0]
    dip = float(case['dip'])
    PA = F.revive_params(case['PA'])
    PB = PA if case.get('share_params', False) else F.revive_params(case['PB'])       # the same settings objects for both instances
    if spec.name == 'UKF' and case.get('ukf_beta') is not None:
        PB = dict(PA, beta=float(case['ukf_beta']))
        ctx.label('ukf_instances_differ_in_beta_only')
    hA, hB = make_history(case['histA']), make_history(case['histB'])
    tag = F.spec_key(spec)
    sched = list(case['schedule'])
    switches = sum(1 for x, y in zip(sched, sched[1:]) if {x, y} == {'A', 'B'})
    ctx.label('switches>=3' if switches >= 3 else 'switches<3', f'filter={tag}')
    ctx.nt(switches >= 3)
    q0 = oracle.qnormalize(np.array([0.9, 0.1, -0.3, 0.2]))
    try:
        np.random.seed(int(case['np_seed']))
        A = _Live(spec, hA, frame, dip, PA, q0)
        B = _Live(spec, hB, frame, dip, PB, q0)
        log = {'A': [], 'B': []}
        for op in sched:
            if op == 'A':
                r = A.advance()
                if r is not None:
                    log['A'].append(('step', r.copy()))
            elif op == 'B':
                r = B.advance()
                if r is not None:
                    log['B'].append(('step', r.copy()))
            elif op == 'rebuild_A':
                A.rebuild()
                log['A'].append(('rebuild', None))
            elif op == 'batch_again':
                # an unrelated batch construction of the same filter type in the middle of the streams
                spec.build(hB[0], hB[1], hB[2], frame, dip, PB, None)
        # shadows: the same operations of A alone, then of B alone, on fresh instances
        for name, live_hist, Pp in (('A', hA, PA), ('B', hB, PB)):
            S = _Live(spec, live_hist, frame, dip, Pp, q0)
            for kind, val in log[name]:
                if kind == 'rebuild':
                    S.rebuild()
                    continue
                r = S.advance()
                if r is None or _bytes(r) != _bytes(val):
                    ctx.fail(f'{tag}|instance_{name}_differs_from_shadow', f'schedule {sched}: {None if r is None else np.max(np.abs(r-val))}')
                    return
    except Exception as e:
        # exceptions of the update itself are C03's business; only report when a shadow behaves differently
        ctx.label('update_raises')


def selftest():
    oracle.selftest()


SUBCHECKS = {
    'stream': Sub(_stream_case, eval_stream, quick=20000, thorough=300000, budget_quick=60.0),
    'isolation': Sub(_iso_case, eval_isolation, quick=5000, thorough=60000),
}
