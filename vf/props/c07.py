"""C07 — array (vectorised) entry points equal the scalar entry points row by row."""
from __future__ import annotations

import math
import numpy as np
from hypothesis import strategies as st

from vf.core import Sub
from vf import gen, oracle, estimators as E
from vf.props.c02 import build_R
from vf.props.c04 import class_b_quaternion

PROPERTY = 'C07'
LEVEL = 'exploration'
RULE = ('Three generated families, N in 1..8 rows (one case in five: 9..40), row index drawn. quat: rows from the shared unit-quaternion mixture (half-turns, '
        'near-identity, denormal components) and rpy triples: QuaternionArray vs Quaternion for w/x/y/z/v, conjugate, to_DCM, '
        'to_angles, from_rpy / rpy=, and DCM= with all seven method/version choices on rotation matrices of every angle class; '
        'chiaverini / hughes Nx3x3 vs 3x3; q2R (v1, v2) and DCM.from_quaternion Nx4 vs 4. metrics: qdist/qeip/qcip/qad and chordal on '
        'N-row vs single inputs (pairs with relative angle 0 or >= 1e-4, either sign). estimators: every single-frame estimator of '
        'the shared table given N samples vs its per-sample estimate with the same options (Tilt x3 representations, SAAM x2, TRIAD '
        'x2 x frames, FLAE x3 methods, FQA, FAMC, QUEST, Davenport, seeded OLEQ, AQUA acc / acc+mag, am2angles), on consistent and on '
        'random (inconsistent) samples and on integer-dtype samples (raw counts in [-40,40]), plus one-sample call vs one-row batch. Oracle: equality to 1e-12 with the sign included '
        '(arccos-based metrics: 1e-12 + min(1e-7, 2e-15/d); estimator rows where the scalar path itself moves by as much under a 4-ulp input perturbation are excused as ill-conditioned, measured per case); NaN patterns and exception types must agree. Non-trivial: N >= 2 and '
        'the selected row is not the first; distinct = case hash.')
ASSUMPTIONS = ['is_pure/is_real/... predicates are not twins (exact vs isclose tests, documented difference)',
               'OLEQ: the single call is aligned with the batch by seeding numpy and discarding the draws of the earlier rows']
REQUIRED_LABELS = ['quat:N>=2', 'metrics:N>=2', 'estimators:N>=2', 'quat:N>=9', 'metrics:N>=9', 'estimators:N>=9', 'estimators:data=random', 'estimators:data=consistent', 'estimators:data=integer']
TOL = 1e-12


def _same(a, b, tol=TOL):
    a, b = np.asarray(a), np.asarray(b)
    if np.iscomplexobj(a) or np.iscomplexobj(b):
        if np.iscomplexobj(a) != np.iscomplexobj(b):
            return False, 'one result is complex'
        a, b = a.astype(complex), b.astype(complex)
    else:
        a, b = a.astype(float), b.astype(float)
    if a.shape != b.shape:
        return False, f'shape {a.shape} vs {b.shape}'
    fa, fb = np.isfinite(a), np.isfinite(b)
    if not np.array_equal(fa, fb):
        return False, f'finiteness differs: {a.tolist()} vs {b.tolist()}'
    if fa.any():
        e = float(np.max(np.abs(a[fa] - b[fb])))
        if e > tol*max(1.0, float(np.max(np.abs(b[fb])))):
            return False, f'differ by {e:.3e}: {a.tolist()} vs {b.tolist()}'
    return True, ''


def _twin(ctx, name, f_batch, f_single, tol=TOL):
    rb = es = None
    try:
        rb = f_batch()
    except Exception as e:
        eb = e
    else:
        eb = None
    try:
        rs = f_single()
    except Exception as e:
        es = e
    if eb is not None or es is not None:
        if eb is not None and es is not None and type(eb) is type(es):
            return
        ctx.fail(f'{name}|one_path_raises', f'batch: {type(eb).__name__ if eb else "ok"} {eb}; single: {type(es).__name__ if es else "ok"} {es}'[:300])
        return
    ok, why = _same(rb, rs, tol)
    if not ok:
        ctx.fail(f'{name}|batch_differs_from_single', why[:300])


# mostly small batches (cheap, shrink well); one case in five is longer so that size-dependent paths are reached
BATCH_SIZES = st.one_of(st.integers(1, 8), st.integers(1, 8), st.integers(1, 8), st.integers(1, 8), st.integers(9, 40))

# ------------------------------------------------------------------ quaternion / matrix twins

def _quat_case():
    @st.composite
    def build(draw):
        n = draw(BATCH_SIZES)
        rows = [draw(gen.unit_quaternions()) for _ in range(n)]
        ang = [[draw(gen.angles_any()), draw(gen.fl(-1.5, 1.5)), draw(gen.angles_any())] for _ in range(n)]
        rots = [list(draw(gen.axis_angle_rotation())) for _ in range(n)]
        return {'rows': rows, 'angles': ang, 'rots': rots, 'idx': draw(st.integers(0, n-1)),
                'eta': draw(st.one_of(st.just(0.0), gen.fl(-1.0, 1.0)))}
    return build()


def eval_quat(case, ctx):
    from ahrs import Quaternion, QuaternionArray, DCM
    from ahrs.common import orientation as ori
    Qr = np.array(case['rows'], dtype=float)
    n, i = len(Qr), int(case['idx'])
    ctx.label('N>=9' if n >= 9 else 'N>=2' if n >= 2 else 'N=1')
    ctx.nt(n >= 2 and i > 0)
    QA = QuaternionArray(np.array(Qr))
    q1 = Quaternion(np.array(Qr[i]))
    for comp in 'wxyzv':
        _twin(ctx, f'QuaternionArray.{comp}', lambda: np.asarray(getattr(QA, comp))[i], lambda: np.asarray(getattr(q1, comp)))
    _twin(ctx, 'conjugate', lambda: np.asarray(QA.conjugate())[i], lambda: np.asarray(q1.conjugate))
    _twin(ctx, 'conj', lambda: np.asarray(QA.conj())[i], lambda: np.asarray(q1.conj))
    _twin(ctx, 'to_DCM', lambda: np.asarray(QA.to_DCM())[i], lambda: np.asarray(q1.to_DCM()))
    # Euler angles are ill-conditioned towards gimbal lock: a 1-ulp difference between the two constructors' normalisations moves
    # each angle by ~ulp/cos(pitch), and the pitch itself by up to sqrt(2 ulp) = 2e-8 rad where |sin(pitch)| rounds to 1
    qn = Qr[i]/np.linalg.norm(Qr[i])
    cp = math.sqrt(max(0.0, 1.0 - min(1.0, abs(2.0*(qn[0]*qn[2] - qn[3]*qn[1])))**2))
    _twin(ctx, 'to_angles', lambda: np.asarray(QA.to_angles())[i], lambda: np.asarray(q1.to_angles()),
          tol=TOL + min(4e-8, 2e-15/max(cp, 1e-300)))
    _twin(ctx, 'to_array', lambda: np.asarray(QA.to_array())[i], lambda: np.asarray(q1.to_array()))
    Ang = np.array(case['angles'], dtype=float)
    _twin(ctx, 'rpy=', lambda: np.asarray(QuaternionArray(rpy=np.array(Ang)))[i], lambda: np.asarray(Quaternion(rpy=np.array(Ang[i]))))
    _twin(ctx, 'from_rpy', lambda: np.asarray(QuaternionArray().from_rpy(np.array(Ang)))[i], lambda: np.asarray(Quaternion().from_rpy(np.array(Ang[i]))))
    # q -> R free functions
    for v in (1, 2):
        _twin(ctx, f'q2R.v{v}', lambda: np.asarray(ori.q2R(np.array(Qr), version=v))[i], lambda: np.asarray(ori.q2R(np.array(Qr[i]), version=v)))
    _twin(ctx, 'DCM.from_quaternion', lambda: np.asarray(DCM.from_quaternion(np.array(Qr)))[i], lambda: np.asarray(DCM.from_quaternion(np.array(Qr[i]))))
    # R -> q, every method
    mats = np.array([build_R(c, a, float(t)) for c, a, t in case['rots']])
    cls_i = case['rots'][i][0]
    ctx.label(f'cls={cls_i.replace("_neg", "")}')
    # the three closed forms are only defined up to pi - 1e-6 (C02): rows beyond are replaced for them by a 3.1-rad turn
    mats_cf = np.array([build_R(c, a, float(t)) if (abs(float(t)) <= math.pi - 1e-6 and not c.startswith('exact_pi')) else oracle.rodrigues(a, 3.1)
                        for c, a, t in case['rots']])
    for method, kw in (('shepperd', {}), ('hughes', {}), ('chiaverini', {}), ('itzhack', {'version': 1}), ('itzhack', {'version': 2}),
                       ('itzhack', {'version': 3}), ('sarabandi', {'threshold': float(case['eta'])})):
        tag = method + ''.join(f'.{v}' for v in kw.values() if method == 'itzhack')
        stack = mats if method in ('shepperd', 'itzhack') else mats_cf
        _twin(ctx, f'DCM=|{tag}',
              lambda: np.asarray(QuaternionArray(DCM=np.array(stack), method=method, **kw))[i],
              lambda: np.asarray(Quaternion(dcm=np.array(stack[i]), method=method, **kw)))
    for fn in ('chiaverini', 'hughes'):
        _twin(ctx, f'orientation.{fn}[N]', lambda: np.asarray(getattr(ori, fn)(np.array(mats_cf)))[i], lambda: np.asarray(getattr(ori, fn)(np.array(mats_cf[i]))))


# ------------------------------------------------------------------ metrics

def _metric_case():
    t = st.one_of(gen.fl(1e-4, math.pi), gen.log_uniform(-4, 0), st.sampled_from([0.0, math.pi, 1.0]))

    @st.composite
    def build(draw):
        n = draw(BATCH_SIZES)
        rows = [{'a': draw(gen.unit_quaternions(allow_denormal=False)), 'axis': draw(gen.axes()), 't': draw(t),
                 'flip': draw(st.booleans()), 's1': draw(gen.scales(-1, 1)), 's2': draw(gen.scales(-1, 1))} for _ in range(n)]
        return {'rows': rows, 'idx': draw(st.integers(0, n-1))}
    return build()


def eval_metrics(case, ctx):
    from ahrs.utils import metrics as M
    rows = case['rows']
    n, i = len(rows), int(case['idx'])
    ctx.label('N>=9' if n >= 9 else 'N>=2' if n >= 2 else 'N=1')
    ctx.nt(n >= 2 and i > 0)
    A, B = [], []
    for r in rows:
        a = np.array(r['a'], dtype=float)
        b = oracle.qmul(a, oracle.axang2q(r['axis'], float(r['t'])))
        b = b/np.linalg.norm(b)
        if r['flip']:
            b = -b
        A.append(a*float(r['s1']))
        B.append(b*float(r['s2']))
    A, B = np.array(A), np.array(B)
    t = float(rows[i]['t'])
    for name in ('qdist', 'qeip', 'qcip', 'qad'):
        tol = TOL
        if name in ('qcip', 'qad'):
            d = t if name == 'qad' else 0.5*t
            tol = TOL + min(1e-7, 2e-15/max(d, 1e-300)) + (min(1e-7, 2e-15/max(math.pi - t, 1e-300)) if name == 'qad' else 0.0)
        _twin(ctx, name, lambda: np.asarray(getattr(M, name)(np.array(A), np.array(B)))[i],
              lambda: np.asarray(getattr(M, name)(np.array(A[i]), np.array(B[i]))), tol)
    RA = np.array([oracle.q2R(x) for x in A])
    RB = np.array([oracle.q2R(x) for x in B])
    _twin(ctx, 'chordal', lambda: np.asarray(M.chordal(np.array(RA), np.array(RB)))[i], lambda: np.asarray(M.chordal(np.array(RA[i]), np.array(RB[i]))))
    X, Y = np.array([r['a'][:3] for r in rows], dtype=float), np.array([r['axis'] for r in rows], dtype=float)
    _twin(ctx, 'euclidean', lambda: np.asarray(M.euclidean(np.array(X), np.array(Y)))[i], lambda: np.asarray(M.euclidean(np.array(X[i]), np.array(Y[i]))))
    _twin(ctx, 'rmse', lambda: np.asarray(M.rmse(np.array(X), np.array(Y)))[i], lambda: np.asarray(M.rmse(np.array(X[i]), np.array(Y[i]))))


# ------------------------------------------------------------------ single-frame estimators

_ROWS = None


def _rows():
    global _ROWS
    if _ROWS is None:
        _ROWS = [r for r in E.build_rows() if r.batch is not None]
    return _ROWS


def _est_case():
    @st.composite
    def build(draw):
        n = draw(BATCH_SIZES)
        data = draw(st.sampled_from(['random', 'consistent', 'random', 'consistent', 'integer']))
        samples = []
        ints = st.integers(-40, 40)
        for _ in range(n):
            if data == 'random':
                samples.append({'acc': draw(gen.vectors3(-2, 2)), 'mag': draw(gen.vectors3(-2, 3))})
            elif data == 'integer':
                # raw sensor counts: integer-dtype arrays are accepted by the input checks of every estimator
                samples.append({'acc': [draw(ints), draw(ints), draw(ints)], 'mag': [draw(ints), draw(ints), draw(ints)]})
            else:
                samples.append({'q': draw(st.one_of(gen.unit_quaternions(allow_denormal=False), class_b_quaternion())),
                                's_a': draw(gen.log_uniform(-1, 2)), 's_m': draw(gen.log_uniform(-1, 2))})
        return {'data': data, 'samples': samples, 'idx': draw(st.integers(0, n-1)), 'dip': draw(gen.fl(-80.0, 80.0)),
                'frame': draw(st.sampled_from(['NED', 'ENU'])), 'np_seed': draw(st.integers(0, 2**31-1)),
                'row': draw(st.integers(0, 63))}
    return build()


def eval_estimators(case, ctx):
    rows = _rows()
    n, i = len(case['samples']), int(case['idx'])
    dip = float(case['dip'])
    ctx.label('N>=9' if n >= 9 else 'N>=2' if n >= 2 else 'N=1', f'data={case["data"]}')
    ctx.nt(n >= 2 and i > 0)
    # three estimator rows per case, chosen by the case (keeps cases cheap while every row is hit uniformly)
    pick = [rows[(int(case['row']) + k*7) % len(rows)] for k in range(3)]
    for row in pick:
        frame = case['frame'] if case['frame'] in row.frames else row.frames[0]
        if case['data'] == 'integer':
            ACC = np.array([s['acc'] for s in case['samples']], dtype=np.int64)
            MAG = np.array([s['mag'] for s in case['samples']], dtype=np.int64)
            for k in range(n):
                if not ACC[k].any():
                    ACC[k] = [1, -2, 7]
                c = float(np.dot(ACC[k], MAG[k]))/max(float(np.linalg.norm(ACC[k])*np.linalg.norm(MAG[k])), 1e-300) if MAG[k].any() else 1.0
                if abs(c) > math.cos(math.radians(1.0)):
                    other = np.array([1, -2, 3]) if np.cross(ACC[k], [1, -2, 3]).any() else np.array([3, 1, -2])
                    MAG[k] = np.cross(ACC[k], other) + ACC[k]        # integer, 45 degrees or more away from acc
        elif case['data'] == 'random':
            ACC = np.array([s['acc'] for s in case['samples']], dtype=float)
            MAG = np.array([s['mag'] for s in case['samples']], dtype=float)
            # keep acc and mag at least 1 degree from parallel (domain of the estimators)
            for k in range(n):
                c = abs(float(np.dot(ACC[k], MAG[k]))/(np.linalg.norm(ACC[k])*np.linalg.norm(MAG[k])))
                if c > math.cos(math.radians(1.0)):
                    MAG[k] = np.cross(ACC[k], [0.3, -0.5, 0.8]) + 0.1*MAG[k]
        else:
            ACC, MAG = [], []
            for s in case['samples']:
                a, m = E.measurements(row, np.array(s['q'], dtype=float), frame, dip, float(s['s_a']), float(s['s_m']))
                ACC.append(a)
                MAG.append(m if m is not None else np.array([1.0, 0.0, 0.0]))
            ACC, MAG = np.array(ACC), np.array(MAG)
        mag_arg = (lambda M_: None if not row.uses_mag else M_)
        seed = int(case['np_seed'])

        def single_of(k, acc=None, mag=None):
            if row.seeded:
                np.random.seed(seed)
                for _ in range(k if n >= 2 else 0):
                    np.random.random(4)
            a_ = np.array(ACC[k]) if acc is None else acc
            m_ = np.array(MAG[k]) if mag is None else mag
            return np.asarray(row.single(a_, mag_arg(m_), frame, dip))

        def run(f):
            try:
                return f(), None
            except Exception as e:           # exceptions are compared, not hidden
                return None, e

        ref_shape = {'q': (4,), 'R': (3, 3), 'angles': (3,)}[row.out]

        def batch_all():
            if row.seeded:
                np.random.seed(seed)
            out = np.asarray(row.batch(np.array(ACC), mag_arg(np.array(MAG)), frame, dip))
            if n == 1 and out.shape == ref_shape:
                out = out[None]                 # a few classes return the bare result for a one-row batch
            return out

        rb, eb = run(batch_all)
        rs, es = run(lambda: single_of(i))
        if eb is not None:
            # the batch evaluates every row: it may legitimately fail because of ANOTHER row
            singles = [run(lambda k=k: single_of(k)) for k in range(n)]
            others = [e_ for _, e_ in singles]
            if not any(type(o) is type(eb) for o in others if o is not None):
                # A singular pose of a closed-form estimator (C03's open findings): the per-sample path returns something
                # that is not an attitude (zero / non-unit quaternion, non-orthogonal matrix, NaN) where the vectorised path,
                # which wraps all rows in one QuaternionArray, refuses the whole batch.  Both are the same singular pose.
                if any(r_ is not None and (not _valid_attitude(row, r_) or _singular_for_scalar_path(
                        lambda a_, m_, k=k: single_of(k, a_, m_), ACC[k], MAG[k], r_)) for k, (r_, _) in enumerate(singles)):
                    ctx.label('singular_pose_skipped')
                    continue
                ctx.fail(f'{row.name}|batch_raises_but_no_row_does', f'{type(eb).__name__}: {eb}'[:200])
            continue
        if es is not None:
            # the per-sample path fails on exactly this sample but works on copies of it moved by rounding-size amounts: a singular
            # pose of the formula (0/0 in the scalar arithmetic, a valid-looking but arbitrary row in the vectorised one)
            works_nearby = False
            for pa, pm in _perturbed(ACC[i], MAG[i]):
                try:
                    p_ = np.asarray(single_of(i, pa, pm))
                    works_nearby = works_nearby or bool(np.all(np.isfinite(np.asarray(p_, dtype=complex))))
                except Exception:
                    pass
            if works_nearby:
                ctx.label('singular_pose_skipped')
                continue
            ctx.fail(f'{row.name}|single_raises_but_batch_does_not', f'{type(es).__name__}: {es}'[:200])
            continue
        if rb.shape != (n,) + ref_shape:
            ctx.fail(f'{row.name}|batch_shape', f'{rb.shape} for N={n}')
            continue
        # on consistent data the true attitude is known: how far the per-sample path itself is from it bounds what rounding can do
        acc_of_single = None
        if case['data'] == 'consistent' and rs is not None and _valid_attitude(row, rs):
            try:
                acc_of_single = float(E.attitude_error(row, rs, np.array(case['samples'][i]['q'], dtype=float)/np.linalg.norm(case['samples'][i]['q']), frame))
            except Exception:
                acc_of_single = None
        judge(ctx, row.name, rb[i], rs, lambda a_, m_: single_of(i, a_, m_), ACC[i], MAG[i], acc_of_single)
        if row.one_sample:
            def one():
                if row.seeded:
                    np.random.seed(seed)
                    for _ in range(i if n >= 2 else 0):
                        np.random.random(4)
                return np.asarray(row.batch(np.array(ACC[i]), mag_arg(np.array(MAG[i])), frame, dip))
            ro, eo = run(one)
            if eo is not None:
                ctx.fail(f'{row.name}|one_sample|raises', f'{type(eo).__name__}: {eo}'[:200])
            else:
                judge(ctx, row.name + '|one_sample', ro, rs, lambda a_, m_: single_of(i, a_, m_), ACC[i], MAG[i], acc_of_single)


def _valid_attitude(row, out):
    o = np.asarray(out)
    if np.iscomplexobj(o) or not np.all(np.isfinite(o)):
        return False
    if row.out == 'q':
        return o.shape == (4,) and abs(float(np.linalg.norm(o)) - 1.0) <= 1e-6
    if row.out == 'R':
        return o.shape == (3, 3) and float(np.max(np.abs(o @ o.T - np.identity(3)))) <= 1e-6
    return o.shape == (3,)


_PATTERNS = ([1, -1, 1, -1, 1, 1], [-1, 1, -1, 1, -1, -1], [1, 1, -1, 1, -1, 1], [-1, -1, 1, -1, 1, -1])


def _perturbed(acc, mag):
    """Copies of the sample: four with every component moved by 4 ulp OF THE VECTOR'S NORM (additive: a purely relative
    perturbation leaves exact zeros exact and misses the sensitivity of poses where a component vanishes)."""
    a, m = np.array(acc, dtype=float), np.array(mag, dtype=float)
    na, nm = float(np.linalg.norm(a)), float(np.linalg.norm(m))
    for pat in _PATTERNS:
        yield a + 8e-16*na*np.array(pat[:3], dtype=float), m + 8e-16*nm*np.array(pat[3:], dtype=float)
    # ... and fifteen rescaled copies (a sample of what the rounding of the internal normalisation can do): every estimator of the table uses directions only, so a positive factor changes nothing but
    # the rounding of the internal normalisation (1 ulp on a_z, which terms like (a_z - 1) near the level pose amplify without bound)
    for sa, sm in ((3.0, 3.0), (1.0/3.0, 0.7), (0.7, 1.0/3.0), (1.1, 1.9), (5.0, 0.3), (0.3, 7.0), (11.0, 1.3), (1.7, 0.9), (0.9, 1.7),
                   (13.0, 17.0), (0.19, 0.23), (2.3, 0.41), (0.61, 3.7), (1.0/7.0, 1.0/11.0), (19.0, 0.53)):
        yield a*sa, m*sm


def _singular_for_scalar_path(single_fn, acc, mag, ref):
    """True when the per-sample path itself raises, returns non-finite numbers or moves by more than 1e-6 under a 4-ulp
    perturbation of the sample (the same measurement judge() makes): a singular or ill-conditioned pose."""
    for pa, pm in _perturbed(acc, mag):
        try:
            p = np.asarray(single_fn(pa, pm))
        except Exception:
            return True
        if p.shape != np.asarray(ref).shape or not np.all(np.isfinite(np.asarray(p, dtype=complex))):
            return True
        if float(np.max(np.abs(np.asarray(p, dtype=complex) - np.asarray(ref, dtype=complex)))) > 1e-6:
            return True
    return False


def judge(ctx, name, got, ref, single_fn, acc, mag, acc_of_single=None):
    """Equality to 1e-12, sign included.  A larger difference is only excused when the scalar path itself moves by a
    comparable amount under a few-ulp perturbation of the sample (ill-conditioned / singular pose: both paths return
    rounding noise there), which is measured, not assumed."""
    ok, why = _same(got, ref)
    if ok:
        return
    sens = 0.0
    singular = not np.all(np.isfinite(np.asarray(ref, dtype=complex)))
    for pa, pm in _perturbed(acc, mag):
        try:
            p = np.asarray(single_fn(pa, pm))
        except Exception:
            singular = True
            continue
        if p.shape != np.asarray(ref).shape or not np.all(np.isfinite(np.asarray(p, dtype=complex))):
            singular = True
            continue
        if not singular:
            sens = max(sens, float(np.max(np.abs(np.asarray(p, dtype=complex) - np.asarray(ref, dtype=complex)))))
    if singular or sens > 1e-6:
        # the per-sample path raises, returns NaN or swings by more than 1e-6 under rounding-size input noise: a singular pose
        ctx.label('singular_pose_skipped')
        return
    g, r = np.asarray(got), np.asarray(ref)
    if g.shape == r.shape and np.all(np.isfinite(np.asarray(g, dtype=complex))):
        diff = float(np.max(np.abs(np.asarray(g, dtype=complex) - np.asarray(r, dtype=complex))))
        if diff <= 50.0*sens:
            ctx.label('ill_conditioned_row_excused', f'ill_conditioned:{name}')
            return
        if acc_of_single is not None and diff <= 8.0*acc_of_single:
            # the per-sample result is itself this far (geodesic angle) from the attitude the exact data encode: the formula
            # loses that much to rounding at this pose, and two arrangements of it may differ by as much
            ctx.label('ill_conditioned_row_excused', f'inaccurate_at_this_pose:{name}')
            return
    ctx.fail(f'{name}|batch_differs_from_single', (why + f' (scalar-path sensitivity to 4-ulp input noise: {sens:.2e})')[:320])


def selftest():
    oracle.selftest()


SUBCHECKS = {
    'quat': Sub(lambda tier: _quat_case(), eval_quat, quick=4000, thorough=300000, budget_quick=70.0),
    'metrics': Sub(lambda tier: _metric_case(), eval_metrics, quick=5000, thorough=300000),
    'estimators': Sub(lambda tier: _est_case(), eval_estimators, quick=8000, thorough=400000),
}
