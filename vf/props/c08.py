"""C08 — gyro integration is exact for constant rates, of the stated order otherwise."""
from __future__ import annotations

import math
import numpy as np
from hypothesis import strategies as st

from vf.core import Sub
from vf import gen, oracle

PROPERTY = 'C08'
LEVEL = 'exploration'
RULE = ('Four generated families. constant: q0 from the shared mixture, rate |w| log-uniform in [1e-2,10] rad/s about '
        'canonical/oblique/random axes, dt in [1e-3,5e-2], n in 1..400 closed-form steps through AngularRate.update in a loop '
        'and through the batch constructor (Dt= and frequency=): must equal q0 (x) exp(w n dt/2) to 1e-12(1+1e-3 n). series: one '
        'step of order k in 0..6 must be within 2 (x/2)^(k+1)/(k+1)! e^(x/2)+1e-15 (x=|w|dt) of the closed form and never worse '
        'than order k-1 (both also checked against an own truncated-exponential model). dead_reckoning: with a null '
        'accelerometer sample Madgwick.updateIMU/updateMARG and Mahony.updateIMU/updateMARG must equal normalise(q + q(x)(0,w) '
        'dt/2), AQUA.updateIMU/updateMARG normalise(q - (0,w)(x)q dt/2), EKF.f and ROLEQ.attitude_propagation the former (1e-12), on '
        'fresh instances and on instances that carry state (0, 3 or 25 ordinary updates before, Mahony built with a bias b0). '
        'recover: angular_velocities(dt) of a smooth quaternion sequence fed to closed-form AngularRate reproduces the sequence '
        'within sum(theta_i^3)/24 + 1e-12. Non-trivial: x >= 1e-3 and n >= 10 (constant), k >= 2 (series); distinct = case hash.')
ASSUMPTIONS = ['the batch AngularRate constructor does not use its first gyroscope row (documented behaviour)',
               'tolerances: pure algebra 1e-12; series bound = Lagrange remainder of the truncated exponential, doubled for the renormalisation']
REQUIRED_LABELS = ['series:order>=2', 'constant:n>=100', 'dead_reckoning:ok', 'dead_reckoning:warm=25']


def _rate():
    return st.tuples(gen.axes(), gen.log_uniform(-2, 1))


def _dt():
    return st.one_of(gen.fl(1e-3, 5e-2), st.sampled_from([0.01, 0.001, 0.05]))


def _err(a, b):
    a, b = np.asarray(a, dtype=float), np.asarray(b, dtype=float)
    if a.shape != b.shape or not np.all(np.isfinite(a)):
        return math.inf
    return float(np.max(np.abs(a - b)))


def _const_case():
    return st.fixed_dictionaries({'q0': gen.unit_quaternions(allow_denormal=False), 'rate': _rate(), 'dt': _dt(),
                                  'n': st.one_of(st.integers(1, 400), st.integers(1, 30)), 'q0scale': gen.log_uniform(-2, 2),
                                  'dts': st.lists(st.one_of(_dt(), st.sampled_from([0.01, 0.02, 0.005])), min_size=2, max_size=6)})


def eval_constant(case, ctx):
    from ahrs.filters import AngularRate
    q0 = np.array(case['q0'], dtype=float)
    q0 = q0/np.linalg.norm(q0)
    ax, mag = case['rate']
    w = np.array(ax, dtype=float)*float(mag)
    dt, n = float(case['dt']), int(case['n'])
    x = float(np.linalg.norm(w))*dt
    ctx.label('n>=100' if n >= 100 else 'n<100')
    ctx.nt(x >= 1e-3 and n >= 10)
    ref = oracle.qmul(q0, oracle.qexp_pure(0.5*n*dt*w))
    tol = 1e-12*(1 + 1e-3*n)
    # streaming
    ok, F = ctx.call('AngularRate()', lambda: AngularRate(Dt=dt))
    if ok:
        def run():
            q = np.array(q0)
            for _ in range(n):
                q = F.update(q, np.array(w), method='closed')
            return np.asarray(q, dtype=float)
        ok, q = ctx.call('update[closed]', run)
        if ok:
            e = min(_err(q, ref), _err(q, -ref))
            ctx.target(e/tol, 'closed_err')
            if e > tol:
                ctx.fail('update[closed]|not_exact', f'err {e:.3e} after {n} steps, |w|dt={x:.3e}')
        # explicit dt argument overrides the object's own step
        ok, q1 = ctx.call('update[dt=]', lambda: np.asarray(AngularRate(Dt=7.0).update(np.array(q0), np.array(w), method='closed', dt=dt), dtype=float))
        if ok:
            r1 = oracle.qmul(q0, oracle.qexp_pure(0.5*dt*w))
            if min(_err(q1, r1), _err(q1, -r1)) > 1e-12:
                ctx.fail('update[dt=]|ignored', f'err {_err(q1, r1):.3e}')
        # one instance, the same rate, uneven steps (a sensor with jitter): elapsed time is what counts, whatever the order
        dts = [float(d) for d in case.get('dts', [])]
        if dts:
            ctx.label('uneven_steps')
            r2 = oracle.qmul(q0, oracle.qexp_pure(0.5*sum(dts)*w))
            for via in ('dt=', 'Dt attribute'):
                def run2():
                    G_ = AngularRate(Dt=dts[0])
                    qq = np.array(q0)
                    for d in dts:
                        if via == 'dt=':
                            qq = G_.update(qq, np.array(w), method='closed', dt=d)
                        else:
                            G_.Dt = d
                            qq = G_.update(qq, np.array(w), method='closed')
                    return np.asarray(qq, dtype=float)
                ok, q2 = ctx.call(f'update[uneven {via}]', run2)
                if ok and min(_err(q2, r2), _err(q2, -r2)) > 1e-12:
                    ctx.fail(f'update[uneven {via}]|not_elapsed_time', f'err {min(_err(q2, r2), _err(q2, -r2)):.3e} steps {dts}')
    # batch constructor: first gyro row is by design unused
    G = np.tile(w, (n+1, 1))
    G[0] = [9.0, -9.0, 9.0]
    for name, kw in (('Dt', {'Dt': dt}), ('frequency', {'frequency': 1.0/dt})):
        ok, A = ctx.call(f'AngularRate(gyr)[{name}]', lambda: AngularRate(gyr=np.array(G), q0=np.array(q0)*float(case['q0scale']), method='closed', **kw))
        if ok:
            Q = np.asarray(A.Q, dtype=float)
            if Q.shape != (n+1, 4):
                ctx.fail(f'batch[{name}]|shape', f'{Q.shape}')
                continue
            tolb = tol*(1 if name == 'Dt' else 1 + 1e3*n*x*1e-4)     # 1/(1/dt) differs from dt by an ulp: phase error n*x*eps
            e = min(_err(Q[n], ref), _err(Q[n], -ref))
            if e > tolb:
                ctx.fail(f'batch[{name}]|not_exact', f'err {e:.3e} after {n} steps')
            if min(_err(Q[0], q0), _err(Q[0], -q0)) > 1e-15*4:
                ctx.fail(f'batch[{name}]|first_row_not_q0', f'{Q[0].tolist()}')


def _series_case():
    return st.fixed_dictionaries({'q0': gen.unit_quaternions(allow_denormal=False), 'rate': _rate(), 'dt': _dt()})


def eval_series(case, ctx):
    from ahrs.filters import AngularRate
    q0 = np.array(case['q0'], dtype=float)
    q0 = q0/np.linalg.norm(q0)
    ax, mag = case['rate']
    w = np.array(ax, dtype=float)*float(mag)
    dt = float(case['dt'])
    x = float(np.linalg.norm(w))*dt
    exact = oracle.qmul(q0, oracle.qexp_pure(0.5*dt*w))
    ctx.label('order>=2')
    ctx.nt(x >= 1e-3)
    ok, F = ctx.call('AngularRate()', lambda: AngularRate(Dt=dt))
    if not ok:
        return
    prev_err = None
    for k in range(0, 7):
        ok, q = ctx.call('update[series]', lambda: np.asarray(F.update(np.array(q0), np.array(w), method='series', order=k), dtype=float))
        if not ok:
            return
        if q.shape != (4,) or not np.all(np.isfinite(q)) or abs(oracle.qnorm(q) - 1) > 1e-12:
            ctx.fail('series|bad_quaternion', f'order {k}: {q!r}')
            return
        err = _err(q, exact)
        bound = 2*(x/2)**(k+1)/math.factorial(k+1)*math.exp(x/2) + 1e-15
        model = oracle.series_step(q0, w, dt, k)
        # sanity of the oracle itself: the own truncated series respects the bound
        if _err(model, exact) > bound:
            from vf.core import HarnessError
            raise HarnessError(f'series oracle violates its own bound at order {k}, x={x}')
        if err > bound:
            ctx.fail(f'series|error_above_order_bound|k={k}', f'order {k}: err {err:.3e} > bound {bound:.3e} at |w|dt={x:.3e}')
        if _err(q, model) > 1e-14:
            ctx.fail(f'series|differs_from_truncated_exponential|k={k}', f'order {k}: {_err(q, model):.3e} at |w|dt={x:.3e}')
        if prev_err is not None and err > prev_err*(1 + 1e-9) + 1e-15:
            ctx.fail(f'series|not_improving|k={k}', f'order {k}: err {err:.3e} > order {k-1}: {prev_err:.3e} at |w|dt={x:.3e}')
        prev_err = err
    # batch route honours method/order
    G = np.tile(w, (3, 1))
    for k in (0, 1, 3):
        ok, A = ctx.call('AngularRate(gyr)[series]', lambda: AngularRate(gyr=np.array(G), q0=np.array(q0), Dt=dt, method='series', order=k))
        if ok:
            Q = np.asarray(A.Q, dtype=float)
            m = oracle.series_step(oracle.series_step(q0, w, dt, k), w, dt, k)
            if Q.shape != (3, 4) or min(_err(Q[2], m), _err(Q[2], -m)) > 1e-13:
                ctx.fail(f'batch[series]|differs_from_truncated_exponential|k={k}', f'{_err(Q[2], m) if Q.shape == (3, 4) else Q.shape}')


def _dr_case():
    return st.fixed_dictionaries({'q': gen.unit_quaternions(allow_denormal=False), 'rate': _rate(), 'dt': _dt(),
                                  'mag': gen.vectors3(-1, 2), 'frame': st.sampled_from(['NED', 'ENU']),
                                  'warm': st.sampled_from([0, 0, 3, 25]), 'acc_w': gen.vectors3(0, 1), 'gyr_w': gen.vectors3(-2, 0),
                                  'b0': st.one_of(st.none(), st.lists(gen.fl(-0.05, 0.05), min_size=3, max_size=3))})


def eval_dr(case, ctx):
    from ahrs.filters import Madgwick, Mahony, AQUA, EKF, ROLEQ
    q = np.array(case['q'], dtype=float)
    q = q/np.linalg.norm(q)
    ax, mg = case['rate']
    w = np.array(ax, dtype=float)*float(mg)
    dt = float(case['dt'])
    mag = np.array(case['mag'], dtype=float)
    zero = np.zeros(3)
    warm = int(case.get('warm', 0))
    acc_w = np.array(case.get('acc_w', [0.0, 0.0, 9.81]), dtype=float)
    gyr_w = np.array(case.get('gyr_w', [0.01, 0.02, -0.01]), dtype=float)
    b0 = case.get('b0')
    ctx.label('ok', f'warm={warm}')
    ctx.nt(warm > 0 or b0 is not None)

    def warmed(obj, step):
        """The dead-reckoning step must not depend on what the instance has processed before (bias integrators, adaptive
        gains, covariances): run `warm` ordinary updates first, then the null-accelerometer step from the resulting q."""
        qq = np.array(q)
        for _ in range(warm):
            qq = np.array(np.asarray(step(obj, qq, gyr_w, acc_w, mag)), dtype=float)
            qq = qq/np.linalg.norm(qq)
        return qq

    def dr(make, step, null_step, conv):
        def run():
            obj = make()
            try:
                qq = warmed(obj, step)
            except Exception:
                return None         # the ordinary warm-up updates are C03's business (e.g. AQUA with gravity exactly opposite)
            if not np.all(np.isfinite(qq)):
                return None
            out = np.asarray(null_step(obj, qq), dtype=float)
            ref = (oracle.step_first_order_body if conv == 'body' else oracle.step_first_order_aqua)(qq, w, dt)
            alt = (oracle.step_first_order_aqua if conv == 'body' else oracle.step_first_order_body)(qq, w, dt)
            return out, ref, alt
        return run

    mah_kw = {} if b0 is None else {'b0': np.array(b0, dtype=float)}
    routes = [
        ('Madgwick.updateIMU', dr(lambda: Madgwick(Dt=dt), lambda o, qq, g, a, m: o.updateIMU(qq, g, a), lambda o, qq: o.updateIMU(np.array(qq), np.array(w), np.array(zero)), 'body')),
        ('Madgwick.updateMARG', dr(lambda: Madgwick(Dt=dt), lambda o, qq, g, a, m: o.updateMARG(qq, g, a, m), lambda o, qq: o.updateMARG(np.array(qq), np.array(w), np.array(zero), np.array(mag)), 'body')),
        ('Madgwick.updateIMU[dt=]', dr(lambda: Madgwick(Dt=3.0), lambda o, qq, g, a, m: o.updateIMU(qq, g, a, dt=dt), lambda o, qq: o.updateIMU(np.array(qq), np.array(w), np.array(zero), dt=dt), 'body')),
        ('Mahony.updateIMU', dr(lambda: Mahony(Dt=dt, **mah_kw), lambda o, qq, g, a, m: o.updateIMU(qq, g, a), lambda o, qq: o.updateIMU(np.array(qq), np.array(w), np.array(zero)), 'body')),
        ('Mahony.updateMARG', dr(lambda: Mahony(Dt=dt, **mah_kw), lambda o, qq, g, a, m: o.updateMARG(qq, g, a, m), lambda o, qq: o.updateMARG(np.array(qq), np.array(w), np.array(zero), np.array(mag)), 'body')),
        ('Mahony.updateIMU[frequency=]', dr(lambda: Mahony(frequency=1.0/dt, **mah_kw), lambda o, qq, g, a, m: o.updateIMU(qq, g, a), lambda o, qq: o.updateIMU(np.array(qq), np.array(w), np.array(zero)), 'body')),
        ('AQUA.updateIMU', dr(lambda: AQUA(Dt=dt), lambda o, qq, g, a, m: o.updateIMU(qq, g, a), lambda o, qq: o.updateIMU(np.array(qq), np.array(w), np.array(zero)), 'aqua')),
        ('AQUA.updateMARG', dr(lambda: AQUA(Dt=dt), lambda o, qq, g, a, m: o.updateMARG(qq, g, a, m), lambda o, qq: o.updateMARG(np.array(qq), np.array(w), np.array(zero), np.array(mag)), 'aqua')),
        ('AQUA.updateMARG[adaptive]', dr(lambda: AQUA(Dt=dt, adaptive=True), lambda o, qq, g, a, m: o.updateMARG(qq, g, a, m), lambda o, qq: o.updateMARG(np.array(qq), np.array(w), np.array(zero), np.array(mag)), 'aqua')),
        ('EKF.f', dr(lambda: EKF(magnetic_ref=60.0, frame=case['frame']), lambda o, qq, g, a, m: o.update(qq, g, a, m, dt=dt), lambda o, qq: o.f(np.array(qq), np.array(w), dt), 'body')),
        ('ROLEQ.attitude_propagation', dr(lambda: ROLEQ(magnetic_ref=60.0, frame=case['frame']), lambda o, qq, g, a, m: o.update(qq, g, a, m, dt=dt), lambda o, qq: o.attitude_propagation(np.array(qq), np.array(w), dt), 'body')),
    ]
    for name, run in routes:
        ok, res = ctx.call(name, run)
        if not ok:
            continue
        if res is None:
            ctx.label('warmup_failed')
            continue
        r, ref, other = res
        if r.shape != (4,) or not np.all(np.isfinite(r)):
            ctx.fail(f'{name}|bad', f'{r!r}')
            continue
        r = r/np.linalg.norm(r)
        tol = 1e-12 if 'frequency' not in name else 1e-12 + 1e-15*float(np.linalg.norm(w))
        if _err(r, ref) > tol:
            kind = 'other_convention' if _err(r, other) <= 1e-12 else 'mismatch'
            state = 'fresh' if warm == 0 and (b0 is None or 'Mahony' not in name) else 'with_state'
            ctx.fail(f'{name}|{kind}|{state}', f'err {_err(r, ref):.3e} |w|dt={float(np.linalg.norm(w))*dt:.3e} warm={warm} b0={b0}')


def _recover_case():
    return st.fixed_dictionaries({'seed': st.integers(0, 2**31-1), 'n': st.integers(3, 60), 'dt': _dt(),
                                  'max_step_deg': st.sampled_from([0.1, 1.0, 5.0, 20.0])})


def eval_recover(case, ctx):
    from ahrs import QuaternionArray
    from ahrs.filters import AngularRate
    from vf.props.c12 import make_sequence
    seq = make_sequence(case['seed'], case['n'], case['max_step_deg'])
    dt = float(case['dt'])
    n = len(seq)
    ctx.nt(n >= 10)
    ok, W = ctx.call('angular_velocities', lambda: np.asarray(QuaternionArray(np.array(seq)).angular_velocities(dt), dtype=float))
    if not ok:
        return
    if W.shape != (n-1, 3) or not np.all(np.isfinite(W)):
        ctx.fail('angular_velocities|shape', f'{W.shape}')
        return
    thetas = [oracle.qangle(seq[i], seq[i+1]) for i in range(n-1)]
    # each recovered rate is 2 sin(theta/2) u / dt in the body frame
    for i in range(n-1):
        d = oracle.qmul(oracle.qconj(seq[i]), seq[i+1])
        ref = 2.0*d[1:]/dt*(1.0 if d[0] >= 0 else 1.0)
        if _err(W[i], ref) > 1e-12*max(1.0, float(np.linalg.norm(ref))):
            ctx.fail('angular_velocities|not_2vec(q*q\')/dt', f'row {i}: err {_err(W[i], ref):.3e}')
            return
    G = np.vstack([np.zeros(3), W])
    ok, A = ctx.call('AngularRate(gyr)', lambda: AngularRate(gyr=np.array(G), q0=np.array(seq[0]), Dt=dt, method='closed'))
    if ok:
        Q = np.asarray(A.Q, dtype=float)
        if Q.shape != (n, 4):
            ctx.fail('integrate_back|shape', f'{Q.shape}')
            return
        bound = 1e-12
        for i in range(n):
            if i > 0:
                bound += thetas[i-1]**3/24
            e = oracle.qangle(Q[i], seq[i])
            if e > bound + 1e-12*i:
                ctx.fail('integrate_back|drift', f'row {i}: angle error {e:.3e} > bound {bound:.3e}')
                break


def selftest():
    oracle.selftest()
    # truncated-exponential model: bound holds and errors improve monotonically (validated before being asserted)
    rs = np.random.RandomState(5)
    for _ in range(200):
        q = oracle.qnormalize(rs.randn(4))
        w = rs.randn(3)
        w = w/np.linalg.norm(w)*10**rs.uniform(-2, 1)
        dt = rs.uniform(1e-3, 5e-2)
        x = np.linalg.norm(w)*dt
        ex = oracle.qmul(q, oracle.qexp_pure(0.5*dt*w))
        prev = None
        for k in range(7):
            e = float(np.max(np.abs(oracle.series_step(q, w, dt, k) - ex)))
            assert e <= 2*(x/2)**(k+1)/math.factorial(k+1)*math.exp(x/2) + 1e-15
            assert prev is None or e <= prev*(1 + 1e-9) + 1e-15
            prev = e


SUBCHECKS = {
    'constant': Sub(lambda tier: _const_case(), eval_constant, quick=4000, thorough=60000),
    'series': Sub(lambda tier: _series_case(), eval_series, quick=12000, thorough=300000),
    'dead_reckoning': Sub(lambda tier: _dr_case(), eval_dr, quick=10000, thorough=200000),
    'recover': Sub(lambda tier: _recover_case(), eval_recover, quick=4000, thorough=60000),
}
