"""C09 — quaternion arithmetic obeys the Hamilton algebra laws."""
from __future__ import annotations

import math
import numpy as np
from hypothesis import strategies as st

from vf.core import Sub
from vf import gen, oracle

PROPERTY = 'C09'
LEVEL = 'exploration'
RULE = ('Triples (p,q,r): each operand is a unit quaternion from the shared mixture (random, axis-angle with log-uniform '
        'angles, specials, denormal components) scaled by 1 or by 10**U(-3,3) (non-normalised, versor=False). Checked with '
        'the package operators against an own Hamilton product: associativity, |pq|=|p||q|, (pq)*=q*p*, q q^-1 = q^-1 q = 1, '
        'mult_L/mult_R (methods and free functions), agreement of *, @, .product, q_prod; every view of one object (buffer, .A, w/x/y/z, to_array, iteration, indexing) and its meaning as left and right operand agree, as built, after normalize() and with the default versor=True; and for the same quaternion stored '
        "scalar-last (order='S'): w,x,y,z,v, conjugate, inverse, product, to_DCM, to_axang, to_angles, exp, log, mult_L/R. "
        'Non-trivial: no operand within 1e-3 rad of +-identity (inverse law: |q| outside [0.9,1.1]); distinct = case hash.')
ASSUMPTIONS = ['tolerance 1e-12 relative to the product of the operand norms',
               "second operands are passed as documented ([w,x,y,z] arrays or scalar-first Quaternion objects)"]
REQUIRED_LABELS = ['algebra:nonversor', 'algebra:versor']

TOL = 1e-12


def _case():
    @st.composite
    def build(draw):
        ops = []
        for _ in range(3):
            u = draw(gen.unit_quaternions())
            s = draw(st.one_of(st.just(1.0), gen.log_uniform(-3, 3), st.sampled_from([1.0 + 5e-6, 1.0 - 3e-6, 2.0, 0.5])))
            ops.append([s*c for c in u])
        return {'p': ops[0], 'q': ops[1], 'r': ops[2]}
    return build()


def _err(a, b):
    d = np.abs(np.asarray(a, dtype=float) - np.asarray(b, dtype=float))
    return float(np.max(d)) if np.all(np.isfinite(d)) else math.inf


def _arr(x):
    a = np.array(np.asarray(x), dtype=float)
    return a


def evaluate(case, ctx):
    from ahrs import Quaternion
    from ahrs.common import orientation as ori
    p, q, r = (np.array([float(c) for c in case[k]]) for k in 'pqr')
    norms = [oracle.qnorm(x) for x in (p, q, r)]
    if any(n < 1e-300 for n in norms):
        return
    unit = [abs(n - 1.0) <= 1e-15*4 for n in norms]
    ctx.label('versor' if all(unit) else 'nonversor')
    far = all(oracle.qangle([1, 0, 0, 0], x) > 1e-3 for x in (p, q, r))
    ctx.nt(far)

    def Qn(x):
        return Quaternion(np.array(x), versor=False)

    P, Qq, Rr = Qn(p), Qn(q), Qn(r)
    scale_pq = norms[0]*norms[1]
    scale_pqr = scale_pq*norms[2]
    pq_ref = oracle.qmul(p, q)

    # the four product routes agree with the reference (first operand non-normalised)
    routes = [
        ('*', lambda: _arr(P * np.array(q))),
        ('@', lambda: _arr(P @ np.array(q))),
        ('.product', lambda: _arr(P.product(np.array(q)))),
        ('*Quaternion', lambda: _arr(P * Qq)),
        ('q_prod', lambda: _arr(ori.q_prod(np.array(p), np.array(q)))),
    ]
    for name, f in routes:
        ok, v = ctx.call(f'prod:{name}', f)
        if ok:
            e = _err(v, pq_ref)
            if e > TOL*scale_pq:
                ctx.fail(f'prod:{name}|mismatch', f'err {e:.3e} scale {scale_pq:.3e}')

    # associativity through the package
    ok, lhs = ctx.call('assoc', lambda: _arr(Qn(_arr(P*np.array(q))) * np.array(r)))
    ok2, rhs = ctx.call('assoc', lambda: _arr(P * _arr(Qq*np.array(r))))
    if ok and ok2:
        e = _err(lhs, rhs)
        if e > 4*TOL*scale_pqr:
            ctx.fail('assoc|mismatch', f'err {e:.3e}')
        e = _err(lhs, oracle.qmul(oracle.qmul(p, q), r))
        if e > 4*TOL*scale_pqr:
            ctx.fail('assoc|vs_reference', f'err {e:.3e}')

    # norm multiplicativity, conjugate reverses products
    ok, pq = ctx.call('prod:*', lambda: _arr(P*np.array(q)))
    if ok:
        n = oracle.qnorm(pq)
        if abs(n - scale_pq) > TOL*scale_pq:
            ctx.fail('norm|not_multiplicative', f'|pq|={n!r} |p||q|={scale_pq!r}')
        ok, c1 = ctx.call('conj', lambda: _arr(Qn(pq).conjugate))
        ok2, c2 = ctx.call('conj', lambda: _arr(Qn(_arr(Qq.conjugate)) * _arr(P.conjugate)))
        if ok and ok2 and _err(c1, c2) > TOL*scale_pq:
            ctx.fail('conj|does_not_reverse_product', f'err {_err(c1, c2):.3e}')
        if ok and _err(c1, oracle.qconj(pq_ref)) > TOL*scale_pq:
            ctx.fail('conj|wrong', f'err {_err(c1, oracle.qconj(pq_ref)):.3e}')

    # inverse, both sides
    nq = norms[1]
    ok, qi = ctx.call('inverse', lambda: _arr(Qq.inverse))
    if ok:
        ok1, left = ctx.call('inverse', lambda: _arr(Qn(qi) * np.array(q)))
        ok2, right = ctx.call('inverse', lambda: _arr(Qq * qi))
        if ok1 and ok2:
            one = np.array([1.0, 0, 0, 0])
            e = max(_err(left, one), _err(right, one))
            if e > 8*TOL:
                region = 'versor' if abs(nq - 1.0) <= 1e-12 else 'nonversor'
                how = 'wrong'
                if region == 'nonversor':
                    if _err(qi, oracle.qconj(q)/nq) <= TOL*max(1.0, 1.0/nq) * 4:
                        how = 'conj_over_norm'
                    elif _err(qi, oracle.qconj(q)) <= TOL*nq and abs(nq - 1.0) < 3e-5:
                        how = 'conj_near_versor'
                ctx.fail(f'inverse|{region}|{how}', f'|q|={nq!r} q*q^-1 off by {e:.3e}')
            if abs(nq - 1.0) > 0.1:
                ctx.label('inverse_far_from_unit')
        ok, qi2 = ctx.call('inverse', lambda: _arr(Qq.inv))
        if ok and not np.array_equal(qi2, qi):
            ctx.fail('inverse|inv_alias_differs', '')

    # left/right product matrices (methods keep the norm; free functions normalise)
    ok, L = ctx.call('mult_L', lambda: _arr(P.mult_L()))
    if ok and (L.shape != (4, 4) or _err(L @ q, pq_ref) > TOL*scale_pq):
        ctx.fail('mult_L|method', f'err {_err(L @ q, pq_ref):.3e}' if L.shape == (4, 4) else f'shape {L.shape}')
    ok, M = ctx.call('mult_R', lambda: _arr(Qq.mult_R()))
    if ok and (M.shape != (4, 4) or _err(M @ p, pq_ref) > TOL*scale_pq):
        ctx.fail('mult_R|method', f'err {_err(M @ p, pq_ref):.3e}' if M.shape == (4, 4) else f'shape {M.shape}')
    pu, qu = p/norms[0], q/norms[1]
    ok, L = ctx.call('q_mult_L', lambda: _arr(ori.q_mult_L(np.array(p))))
    if ok and _err(L @ qu, oracle.qmul(pu, qu)) > TOL*4:
        ctx.fail('mult_L|free_function', f'err {_err(L @ qu, oracle.qmul(pu, qu)):.3e}')
    ok, M = ctx.call('q_mult_R', lambda: _arr(ori.q_mult_R(np.array(q))))
    if ok and _err(M @ pu, oracle.qmul(pu, qu)) > TOL*4:
        ctx.fail('mult_R|free_function', f'err {_err(M @ pu, oracle.qmul(pu, qu)):.3e}')

    # one object, one quaternion: every view of a Quaternion (ndarray buffer, .A, w/x/y/z, to_array, iteration) holds the same
    # numbers, before and after the explicit in-place normalize(), and the object means the same as right and as left operand
    for how in ('as_built', 'normalized', 'versor_default'):
        def make():
            X = Quaternion(np.array(q), versor=False) if how != 'versor_default' else Quaternion(np.array(q))
            if how == 'normalized':
                X.normalize()
            return X
        ok, X = ctx.call(f'views:{how}', make)
        if not ok:
            continue
        want = q if how == 'as_built' else q/nq
        sc = nq if how == 'as_built' else 1.0
        views = [('asarray', lambda: np.array(np.asarray(X), dtype=float)), ('A', lambda: np.array(X.A, dtype=float)),
                 ('wxyz', lambda: np.array([X.w, X.x, X.y, X.z], dtype=float)), ('to_array', lambda: _arr(X.to_array())),
                 ('iteration', lambda: np.array([float(c) for c in X])), ('index', lambda: np.array([float(X[i]) for i in range(4)]))]
        for vname, f in views:
            okv, v = ctx.call(f'views:{how}:{vname}', f)
            if okv and (v.shape != (4,) or _err(v, want) > 4e-16*sc):
                ctx.fail(f'views|{how}|{vname}', f'{v.tolist()} but the quaternion is {np.asarray(want).tolist()}')
        for oname, f, ref, scl in [
            ('right_operand_of_*', lambda: _arr(P * X), oracle.qmul(p, want), norms[0]*sc),
            ('right_operand_of_product', lambda: _arr(P.product(X)), oracle.qmul(p, want), norms[0]*sc),
            ('left_operand_of_*', lambda: _arr(X * np.array(p)), oracle.qmul(want, p), norms[0]*sc),
            ('q_prod_first', lambda: _arr(ori.q_prod(X, np.array(p))), oracle.qmul(want, p), norms[0]*sc),
            ('q_prod_second', lambda: _arr(ori.q_prod(np.array(p), X)), oracle.qmul(p, want), norms[0]*sc),
        ]:
            oko, v = ctx.call(f'views:{how}:{oname}', f)
            if oko and _err(v, ref) > TOL*scl:
                ctx.fail(f'views|{how}|{oname}', f'err {_err(v, ref):.3e} (scale {scl:.3e})')

    # scalar-last storage exposes the same quaternion
    for versor in (False, True):
        tag = 'S' if not versor else 'S.versor'
        ok, S = ctx.call(f'{tag}:construct', lambda: Quaternion(np.roll(np.array(q), -1), versor=versor, order='S'))
        if not ok:
            continue
        # the scalar-first twin is built from the *stored* components (no second normalisation), so the two
        # objects hold bit-identical numbers and every derived quantity must agree to rounding of identical formulas
        ok2, H = ctx.call(f'{tag}:construct', lambda: Quaternion(np.roll(np.array(S.A, dtype=float), 1), versor=False))
        if not ok2:
            continue
        sc = 1.0 if versor else nq
        if _err(np.roll(np.array(S.A, dtype=float), 1), q/nq if versor else q) > 4e-16*sc:
            ctx.fail(f'{tag}|stored_components', f'{np.array(S.A).tolist()}')
        for comp in 'wxyz':
            if float(getattr(S, comp)) != float(getattr(H, comp)):
                ctx.fail(f'{tag}|component_{comp}', f'{getattr(S, comp)!r} vs {getattr(H, comp)!r}')
        if not np.array_equal(_arr(S.v), _arr(H.v)):
            ctx.fail(f'{tag}|v', '')
        hc = _arr(H.conjugate)
        sconj = _arr(S.conjugate)
        if not (_err(sconj, hc) <= TOL*sc or _err(np.roll(sconj, 1), hc) <= TOL*sc):
            ctx.fail(f'{tag}|conjugate', f'{sconj.tolist()} vs scalar-first {hc.tolist()}')
        if abs(nq - 1.0) <= 1e-12 or versor:
            hi, si = _arr(H.inverse), _arr(S.inverse)
            if not (_err(si, hi) <= TOL*sc or _err(np.roll(si, 1), hi) <= TOL*sc):
                ctx.fail(f'{tag}|inverse', f'{si.tolist()} vs {hi.tolist()}')
        for name, fS, fH, scale in [
            ('product', lambda: _arr(S.product(np.array(p))), lambda: _arr(H.product(np.array(p))), sc*norms[0]),
            ('mul', lambda: _arr(S*np.array(p)), lambda: _arr(H*np.array(p)), sc*norms[0]),
            ('matmul', lambda: _arr(S@np.array(p)), lambda: _arr(H@np.array(p)), sc*norms[0]),
            ('mult_L', lambda: _arr(S.mult_L()), lambda: _arr(H.mult_L()), sc),
            ('mult_R', lambda: _arr(S.mult_R()), lambda: _arr(H.mult_R()), sc),
            ('to_DCM', lambda: _arr(S.to_DCM()), lambda: _arr(H.to_DCM()), max(1.0, sc*sc)),
            ('to_angles', lambda: _arr(S.to_angles()), lambda: _arr(H.to_angles()), 1.0),
            ('exponential', lambda: _arr(S.exponential), lambda: _arr(H.exponential), None),
            ('logarithm', lambda: _arr(S.logarithm), lambda: _arr(H.logarithm), None),
        ]:
            okS, a = ctx.call(f'{tag}:{name}', fS)
            okH, b = ctx.call(f'H:{name}', fH)
            if okS and okH:
                if a.shape != b.shape:
                    ctx.fail(f'{tag}|{name}', f'shape {a.shape} vs {b.shape}')
                    continue
                fin = np.isfinite(b)
                if not np.array_equal(np.isfinite(a), fin):
                    ctx.fail(f'{tag}|{name}', 'finiteness differs')
                    continue
                s_ = scale if scale is not None else max(1.0, float(np.max(np.abs(b[fin]))) if fin.any() else 1.0)
                extra = 0.0
                if name == 'logarithm':
                    # |q| is summed over the stored order: a 1-ulp difference, amplified by arccos near +-1 by 1/theta
                    th = math.atan2(float(np.linalg.norm(q[1:])), abs(float(q[0])))
                    extra = 4e-16/max(th, 1e-300)
                if fin.any() and _err(a[fin], b[fin]) > TOL*s_ + extra:
                    ctx.fail(f'{tag}|{name}', f'err {_err(a[fin], b[fin]):.3e}')
        okS, a = ctx.call(f'{tag}:to_axang', lambda: S.to_axang())
        okH, b = ctx.call('H:to_axang', lambda: H.to_axang())
        if okS and okH:
            a0, b0 = _arr(a[0]), _arr(b[0])
            m = np.isfinite(b0)
            same_nf = np.array_equal(a0[~m], b0[~m], equal_nan=True) and np.array_equal(np.isfinite(a0), m)
            if not same_nf or (m.any() and _err(a0[m], b0[m]) > TOL) or abs(float(a[1]) - float(b[1])) > TOL:
                ctx.fail(f'{tag}|to_axang', f'{a} vs {b}')


def selftest():
    oracle.selftest()


# fixed regression probe for the open finding (non-versor inverse)
PROBES = [('algebra', {'p': [1.0, 0.0, 0.0, 0.0], 'q': [1.0, 2.0, 3.0, 4.0], 'r': [0.0, 1.0, 0.0, 0.0]})]

SUBCHECKS = {'algebra': Sub(lambda tier: _case(), evaluate, quick=12000, thorough=600000)}
