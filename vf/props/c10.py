"""C10 — attitude representations round-trip (Euler, axis-angle, log/exp, powers)."""
from __future__ import annotations

import math
import numpy as np
from hypothesis import strategies as st

from vf.core import Sub
from vf import gen, oracle

PROPERTY = 'C10'
LEVEL = 'exploration'
RULE = ('Five generated families. rpy: triples in (-pi,pi] with |pitch| < pi/2-1e-6 (uniform, log-uniform near 0 and near '
        'the gimbal limit, specials) through Quaternion(rpy=)/from_rpy/to_angles, QuaternionArray(rpy=)/to_angles and '
        'orientation.rpy2q/q2rpy (radians and degrees). axang: axis x angle in (0,pi) log-uniform at both ends through '
        'Quaternion.to_axang, quat2axang, axang2quat, DCM.to_axisangle/from_axisangle/DCM(axang=). logpow: unit q and real '
        'exponents a,b in [-3,3] incl. 0,1,-1,1/2 for exp(log q)=q, q**1=q, q**0=1, q**a q**b=q**(a+b), q**a = axis, a*angle. '
        'euler: axis sequences of length 1-3 over xyzXYZ with angles incl. tiny ones, through rotation, rot_seq, DCM(x=/y=/z=), '
        'DCM(rpy=), DCM(euler=) against own elementary matrices. dcmlog: DCM.log skew-symmetric with Frobenius norm '
        'sqrt(2)*theta for theta in [0,pi) down to 1e-12. Oracles are own formulas (vf/oracle.py). Non-trivial: angle < 1e-2 '
        'or > pi-1e-2, |pitch| > 80 deg, or exponent not in {0,1}; distinct = case hash.')
ASSUMPTIONS = ['1e-7 tolerance for arccos/arcsin-based conversions (sqrt(eps) inherent loss), 1e-12 for pure algebra',
               'near-pi axis-angle extraction (pi-theta < 1e-4) is a listed finding, not judged by a looser tolerance']
REQUIRED_LABELS = ['rpy:near_gimbal', 'axang:cls=small', 'axang:cls=near_pi', 'dcmlog:cls=tiny', 'dcmlog:cls=small',
                   'euler:tiny_angle', 'logpow:a_generic']
PI = math.pi


def _maxabs(a, b):
    d = np.abs(np.asarray(a, dtype=float) - np.asarray(b, dtype=float))
    return float(np.max(d)) if d.size and np.all(np.isfinite(d)) else (math.inf if d.size else 0.0)


def _wrap(a):
    return (a + PI) % (2*PI) - PI


# ------------------------------------------------------------------ rpy

def _rpy_case():
    pitch = st.one_of(gen.fl(-PI/2 + 1e-6, PI/2 - 1e-6), gen.fl(-1.4, 1.4),
                      st.tuples(gen.signs(), gen.log_uniform(-6, -1)).map(lambda t: t[0]*(PI/2 - t[1])),
                      st.tuples(gen.signs(), gen.log_uniform(-9, -2)).map(lambda t: t[0]*t[1]),
                      st.sampled_from([0.0, PI/4, -PI/4, 1.0]))
    return st.fixed_dictionaries({'roll': gen.angles_any(), 'pitch': pitch, 'yaw': gen.angles_any(),
                                  'n': st.integers(1, 4), 'idx': st.integers(0, 3)})


def eval_rpy(case, ctx):
    from ahrs import Quaternion, QuaternionArray
    from ahrs.common import orientation as ori
    r, p, y = float(case['roll']), float(case['pitch']), float(case['yaw'])
    n = case['n']
    idx = case['idx'] % n
    ang = np.array([r, p, y])
    gimbal_dist = PI/2 - abs(p)
    if gimbal_dist < 1e-2:
        ctx.label('near_gimbal')
    ctx.nt(abs(p) > math.radians(80) or min(abs(r), abs(y)) < 1e-2 and (r != 0 or y != 0))
    q_ref = oracle.rpy2q(r, p, y)
    R_ref = oracle.q2R(q_ref)
    rows = np.tile(np.array([0.1, -0.2, 0.3]), (n, 1))
    rows[idx] = ang
    routes = [
        ('Quaternion(rpy=)', lambda: Quaternion(rpy=np.array(ang)), lambda Q: Q.to_angles()),
        ('Quaternion.from_rpy', lambda: Quaternion(Quaternion().from_rpy(np.array(ang))), lambda Q: Q.to_angles()),
        ('Quaternion.from_angles', lambda: Quaternion(Quaternion().from_angles(np.array(ang))), lambda Q: Q.to_angles()),
        ('QuaternionArray(rpy=)', lambda: QuaternionArray(rpy=np.array(rows)), lambda Q: np.asarray(Q.to_angles())[idx]),
        ('rpy2q', lambda: ori.rpy2q(np.array(ang)), lambda q: ori.q2rpy(np.array(q))),
        ('rpy2q[deg]', lambda: ori.rpy2q(np.degrees(ang), in_deg=True), lambda q: np.radians(ori.q2rpy(np.array(q), in_deg=True))),
        ('cardan2q', lambda: ori.cardan2q(np.array(ang)), lambda q: ori.q2cardan(np.array(q))),
    ]
    for name, fwd, back in routes:
        ok, Q = ctx.call(f'{name}|fwd', fwd)
        if not ok:
            continue
        qa = np.asarray(Q, dtype=float)
        if name.startswith('QuaternionArray'):
            qa = qa[idx]
        if qa.shape != (4,) or not np.all(np.isfinite(qa)):
            ctx.fail(f'{name}|bad_quaternion', f'{qa!r}')
            continue
        e = _maxabs(oracle.q2R(qa), R_ref)
        if e > 1e-12 or abs(oracle.qnorm(qa) - 1) > 1e-12:
            ctx.fail(f'{name}|quaternion_mismatch', f'max|R(q)-R_ref|={e:.3e}')
            continue
        ok, a = ctx.call(f'{name}|back', lambda: np.asarray(back(Q), dtype=float))
        if not ok:
            continue
        if a.shape != (3,):
            ctx.fail(f'{name}|angles_shape', f'{a.shape}')
            continue
        d = np.abs(_wrap(a - ang))
        # longitude-type angles are compared on the circle; near the gimbal limit their conditioning is 1/cos(pitch)
        tol = 1e-7
        if not np.all(np.isfinite(d)) or float(np.max(d)) > tol:
            ctx.fail(f'{name}|angles_not_recovered', f'in {ang.tolist()} out {a.tolist()} (gimbal distance {gimbal_dist:.2e})')
        ctx.target(float(np.max(d))/tol if np.all(np.isfinite(d)) else 0.0, 'rpy_err')


# ------------------------------------------------------------------ axis-angle

def _axang_case():
    angle = st.one_of(
        st.tuples(st.just('generic'), gen.fl(1e-2, PI - 1e-2)),
        st.tuples(st.just('small'), gen.log_uniform(-9, -2)),
        st.tuples(st.just('near_pi'), gen.log_uniform(-4, -2).map(lambda d: PI - d)),
        st.tuples(st.just('very_near_pi'), gen.log_uniform(-9, -4).map(lambda d: PI - d)),
        st.tuples(st.just('right'), st.sampled_from([PI/2, PI/3, 1.0, 2.0])))
    return st.fixed_dictionaries({'axis': gen.axes(), 'ang': angle, 'scale': gen.scales()})


def eval_axang(case, ctx):
    from ahrs import Quaternion, DCM
    from ahrs.common import orientation as ori
    cls, th = case['ang']
    th = float(th)
    u = np.array(case['axis'], dtype=float)
    u = u/np.linalg.norm(u)
    ctx.label(f'cls={cls}')
    ctx.nt(cls != 'generic' and cls != 'right')
    q_ref = oracle.axang2q(u, th)
    R_ref = oracle.rodrigues(u, th)

    def judge(name, axis, angle, region=cls):
        axis = np.asarray(axis, dtype=float)
        angle = float(angle)
        if axis.shape != (3,) or not np.all(np.isfinite(axis)) or not math.isfinite(angle):
            ctx.fail(f'{name}|nonfinite|{region}', f'axis {axis!r} angle {angle!r}')
            return
        an = float(np.linalg.norm(axis))
        if an == 0.0:
            R = np.identity(3)
        else:
            if abs(an - 1.0) > 1e-7:
                ctx.fail(f'{name}|axis_not_unit|{region}', f'|axis|={an!r}')
                return
            R = oracle.rodrigues(axis, angle)
        e = oracle.geodesic(R, R_ref)
        if e > 1e-7:
            ctx.fail(f'{name}|mismatch|{region}', f'geodesic error {e:.3e} at theta={th!r} (pi-theta={PI-th:.3e})')
        ctx.target(e/1e-7, 'axang_err')

    # quaternion -> axis-angle
    ok, r = ctx.call('Quaternion.to_axang', lambda: Quaternion(np.array(q_ref)).to_axang())
    if ok:
        judge('Quaternion.to_axang', r[0], r[1])
    ok, r = ctx.call('quat2axang', lambda: ori.quat2axang(np.array(q_ref)*float(case['scale'])))
    if ok:
        judge('quat2axang', r[0], r[1])
    # axis-angle -> quaternion
    ok, q = ctx.call('axang2quat', lambda: np.asarray(ori.axang2quat(np.array(u)*float(case['scale']), th), dtype=float))
    if ok:
        e = _maxabs(oracle.q2R(q), R_ref) if q.shape == (4,) else math.inf
        if e > 1e-12 or abs(oracle.qnorm(q) - 1) > 1e-12:
            ctx.fail('axang2quat|mismatch', f'{e:.3e}')
    ok, q = ctx.call('axang2quat[deg]', lambda: np.asarray(ori.axang2quat(np.array(u), math.degrees(th), rad=False), dtype=float))
    if ok:
        e = _maxabs(oracle.q2R(q), R_ref) if q.shape == (4,) else math.inf
        if e > 1e-12:
            ctx.fail('axang2quat[deg]|mismatch', f'{e:.3e}')
    # axis-angle -> matrix
    for name, f in [('DCM(axang=)', lambda: np.asarray(DCM(axang=(np.array(u)*float(case['scale']), th)))),
                    ('DCM.from_axisangle', lambda: np.asarray(DCM().from_axisangle(np.array(u), th))),
                    ('DCM.from_axang', lambda: np.asarray(DCM().from_axang(np.array(u), th)))]:
        ok, R = ctx.call(name, f)
        if ok:
            e = _maxabs(R, R_ref) if R.shape == (3, 3) else math.inf
            if e > 1e-12:
                ctx.fail(f'{name}|mismatch', f'{e:.3e}')
    # matrix -> axis-angle
    region = cls if PI - th >= 1e-4 else 'within_1e-4_of_pi'
    for name, f in [('DCM.to_axisangle', lambda: DCM(np.array(R_ref)).to_axisangle()),
                    ('DCM.to_axang', lambda: DCM(np.array(R_ref)).to_axang())]:
        ok, r = ctx.call(name, f)
        if ok:
            judge(name, r[0], r[1], region)


# ------------------------------------------------------------------ log / exp / powers

def _logpow_case():
    expo = st.one_of(gen.fl(-3.0, 3.0), st.sampled_from([0.0, 1.0, -1.0, 0.5, 2.0, -0.5, 3.0, -3.0]))
    return st.fixed_dictionaries({'q': gen.unit_quaternions(), 'a': expo, 'b': expo})


def eval_logpow(case, ctx):
    from ahrs import Quaternion
    q = np.array([float(c) for c in case['q']])
    a, b = float(case['a']), float(case['b'])
    Q = Quaternion(np.array(q))
    qs = np.array(np.asarray(Q), dtype=float)          # the stored, normalised components
    vn = float(np.linalg.norm(qs[1:]))
    t = math.atan2(vn, qs[0])                           # half rotation angle in [0, pi]
    ctx.label('a_generic' if a not in (0.0, 1.0) else 'a_trivial')
    ctx.nt(a not in (0.0, 1.0) and vn > 1e-3)
    one = np.array([1.0, 0, 0, 0])
    TOL = 1e-7
    if 0.0 < float(np.max(np.abs(qs[1:]))) < 1e-150:
        # The squares of such components are subnormal: |v| and with it the unit axis v/|v| carry a relative error of up to
        # 1e-6 whatever the formula, which the factor theta ~ pi next to q = -1 turns into 5e-6 (seen in the thorough tier with
        # q = (-1, 0, 0, 5e-160)).  Component magnitudes whose squares underflow are outside the numeric domain of this check
        # (DESIGN.md section 7); exact zeros and everything from 1e-150 up are in.
        ctx.label('vector_part_below_1e-150_unjudged')
        return

    ok, lg = ctx.call('logarithm', lambda: np.asarray(Q.logarithm, dtype=float))
    if ok:
        if lg.shape != (4,) or not np.all(np.isfinite(lg)):
            ctx.fail('logarithm|bad', f'{lg!r}')
        else:
            if np.any(lg != 0.0):
                ok2, ex = ctx.call('exponential', lambda: np.asarray(Quaternion(np.array(lg), versor=False).exponential, dtype=float))
                if ok2 and _maxabs(ex, qs) > TOL:
                    ctx.fail('exp_log|mismatch', f'err {_maxabs(ex, qs):.3e} q={qs.tolist()}')
            else:
                # exact zero logarithm cannot be fed to the constructor; q itself must then be +-1 to tolerance
                if min(_maxabs(qs, one), _maxabs(qs, -one)) > TOL:
                    ctx.fail('logarithm|zero_for_nontrivial_q', f'q={qs.tolist()}')
            # log is (0, u * t)
            ref = np.array([0.0, *(qs[1:]/vn*t)]) if vn > 0 else np.zeros(4)
            if _maxabs(lg, ref) > TOL:
                ctx.fail('logarithm|mismatch', f'err {_maxabs(lg, ref):.3e}')

    def power(x):
        return np.asarray(Q**x, dtype=float)

    def ref_pow(x):
        if vn == 0.0:
            # real unit quaternion (+-1): principal logarithm is taken as zero by the package
            return one.copy()
        return np.array([math.cos(x*t), *(qs[1:]/vn*math.sin(x*t))])

    ok, p1 = ctx.call('pow', lambda: power(1.0))
    if ok and (p1.shape != (4,) or _maxabs(p1, qs) > TOL) and vn > 0:
        ctx.fail('pow|q**1_is_not_q', f'{p1.tolist()} vs {qs.tolist()}')
    ok, p0 = ctx.call('pow', lambda: power(0.0))
    if ok and (p0.shape != (4,) or _maxabs(p0, one) > TOL):
        ctx.fail('pow|q**0_is_not_1', f'{p0.tolist()}')
    ok, pa = ctx.call('pow', lambda: power(a))
    ok2, pb = ctx.call('pow', lambda: power(b))
    ok3, pab = ctx.call('pow', lambda: power(a + b))
    if ok and pa.shape == (4,):
        e = _maxabs(pa, ref_pow(a))
        if e > TOL*(1 + abs(a)):
            ctx.fail('pow|not_axis_a_times_angle', f'a={a!r} err {e:.3e} q={qs.tolist()}')
        ctx.target(e/TOL, 'pow_err')
    if ok and ok2 and ok3 and pa.shape == (4,) and pb.shape == (4,) and pab.shape == (4,):
        prod = oracle.qmul(pa, pb)
        e = _maxabs(prod, pab)
        if e > TOL*(1 + abs(a) + abs(b)):
            ctx.fail('pow|exponents_do_not_add', f'a={a!r} b={b!r} err {e:.3e}')


# ------------------------------------------------------------------ Euler sequences

def _euler_case():
    ang = st.one_of(gen.angles_any(), st.tuples(gen.signs(), gen.log_uniform(-12, -5)).map(lambda t: t[0]*t[1]),
                    st.sampled_from([2*PI, -2*PI, 3.0, 6.0, 6.2831, 360.0, 720.0, 1e-7, 5e-7]))
    return st.fixed_dictionaries({
        'axes': st.lists(st.sampled_from(list('xyzXYZ')), min_size=1, max_size=3),
        'angles': st.lists(ang, min_size=3, max_size=3),
        'degrees': st.booleans()})


def eval_euler(case, ctx):
    from ahrs import DCM
    from ahrs.common import dcm as dcmmod
    axes = list(case['axes'])
    k = len(axes)
    angs = [float(x) for x in case['angles'][:k]]
    deg = bool(case['degrees'])
    if any(0 < abs(x) < 1e-5 for x in angs):
        ctx.label('tiny_angle')
    ctx.nt(k >= 2 and any(0 < abs(x) < 1e-2 for x in angs) or k == 3)
    TOL = 1e-7

    def ref_seq(ax, an, degrees):
        R = np.identity(3)
        for a_, t_ in zip(ax, an):
            R = R @ oracle.elem(a_, math.radians(t_) if degrees else t_)
        return R

    # single elementary rotation
    for a_, t_ in zip(axes, angs):
        for d in (False, True):
            ok, R = ctx.call('rotation', lambda: np.asarray(dcmmod.rotation(a_, t_, degrees=d), dtype=float))
            if ok:
                e = _maxabs(R, ref_seq([a_], [t_], d)) if R.shape == (3, 3) else math.inf
                if e > TOL:
                    ctx.fail(f"rotation|mismatch|{'deg' if d else 'rad'}", f'axis {a_} angle {t_!r} degrees={d} err {e:.3e}')
        ok, R = ctx.call('DCM(axis=)', lambda: np.asarray(DCM(**{a_.lower(): t_}), dtype=float))
        if ok:
            e = _maxabs(R, ref_seq([a_], [t_], False))
            if e > TOL:
                ctx.fail('DCM(axis=)|mismatch', f'axis {a_} angle {t_!r} err {e:.3e}')
    # sequences
    for d in (False, True):
        ok, R = ctx.call('rot_seq', lambda: np.asarray(dcmmod.rot_seq(list(axes), list(angs), degrees=d), dtype=float))
        if ok:
            e = _maxabs(R, ref_seq(axes, angs, d))
            if e > TOL:
                ctx.fail(f"rot_seq|mismatch|{'deg' if d else 'rad'}", f'axes {axes} angles {angs} err {e:.3e}')
    ok, R = ctx.call('rot_seq[str]', lambda: np.asarray(dcmmod.rot_seq(''.join(axes), list(angs)), dtype=float))
    if ok and _maxabs(R, ref_seq(axes, angs, False)) > TOL:
        ctx.fail('rot_seq[str]|mismatch', f'axes {axes} angles {angs}')
    ok, R = ctx.call('DCM(euler=)', lambda: np.asarray(DCM(euler=(''.join(axes), list(angs))), dtype=float))
    if ok and _maxabs(R, ref_seq(axes, angs, False)) > TOL:
        ctx.fail('DCM(euler=)|mismatch', f'axes {axes} angles {angs} err {_maxabs(R, ref_seq(axes, angs, False)):.3e}')
    ok, R = ctx.call('DCM(euler=)[list]', lambda: np.asarray(DCM(euler=(list(axes), np.array(angs))), dtype=float))
    if ok and _maxabs(R, ref_seq(axes, angs, False)) > TOL:
        ctx.fail('DCM(euler=)[list]|mismatch', f'axes {axes} angles {angs}')
    a3 = [float(x) for x in case['angles']]
    ok, R = ctx.call('DCM(rpy=)', lambda: np.asarray(DCM(rpy=np.array(a3)), dtype=float))
    if ok and _maxabs(R, ref_seq('zyx', a3, False)) > TOL:
        ctx.fail('DCM(rpy=)|mismatch', f'angles {a3} err {_maxabs(R, ref_seq("zyx", a3, False)):.3e}')
    # several axis keywords at once: the order is not documented; any of the two natural orders is accepted
    ok, R = ctx.call('DCM(x=,y=,z=)', lambda: np.asarray(DCM(x=a3[0], y=a3[1], z=a3[2]), dtype=float))
    if ok:
        e = min(_maxabs(R, ref_seq('xyz', a3, False)), _maxabs(R, ref_seq('zyx', a3[::-1], False)))
        if e > TOL:
            ctx.fail('DCM(x=,y=,z=)|mismatch', f'angles {a3} err {e:.3e}')


# ------------------------------------------------------------------ matrix logarithm

def _dcmlog_case():
    angle = st.one_of(
        st.tuples(st.just('generic'), gen.fl(1e-2, PI - 1e-2)),
        st.tuples(st.just('tiny'), gen.log_uniform(-12, -6)),
        st.tuples(st.just('small'), gen.log_uniform(-6, -2)),
        st.tuples(st.just('near_pi'), gen.log_uniform(-9, -2).map(lambda d: PI - d)),
        st.tuples(st.just('zero'), st.just(0.0)))
    return st.fixed_dictionaries({'axis': gen.axes(), 'ang': angle})


def eval_dcmlog(case, ctx):
    from ahrs import DCM
    cls, th = case['ang']
    th = float(th)
    ctx.label(f'cls={cls}')
    ctx.nt(cls in ('tiny', 'small', 'near_pi'))
    R = oracle.rodrigues(case['axis'], th) if cls != 'zero' else np.identity(3)
    ok, L = ctx.call('DCM.log', lambda: np.asarray(DCM(np.array(R)).log, dtype=float))
    if not ok:
        return
    if L.shape != (3, 3) or not np.all(np.isfinite(L)):
        ctx.fail(f'DCM.log|bad|{cls}', f'{L!r}')
        return
    if _maxabs(L, -L.T) > 1e-12:
        ctx.fail(f'DCM.log|not_skew|{cls}', f'{_maxabs(L, -L.T):.3e}')
    mag = float(np.linalg.norm(L, 'fro'))
    e = abs(mag - math.sqrt(2.0)*th)
    tol = 1e-7*(1 + th)
    if e > tol:
        kind = 'zero_returned' if mag == 0.0 else 'magnitude'
        ctx.fail(f'DCM.log|{kind}|{cls}', f'|log|_F={mag!r} expected {math.sqrt(2.0)*th!r} (theta={th!r})')
    ctx.target(e/tol, 'dcmlog_err')


def selftest():
    oracle.selftest()


SUBCHECKS = {
    'rpy': Sub(lambda tier: _rpy_case(), eval_rpy, quick=6000, thorough=400000),
    'axang': Sub(lambda tier: _axang_case(), eval_axang, quick=6000, thorough=400000),
    'logpow': Sub(lambda tier: _logpow_case(), eval_logpow, quick=6000, thorough=400000),
    'euler': Sub(lambda tier: _euler_case(), eval_euler, quick=5000, thorough=400000),
    'dcmlog': Sub(lambda tier: _dcmlog_case(), eval_dcmlog, quick=6000, thorough=400000),
}
