"""C11 — constructors only ever produce valid rotations and reject what cannot be one."""
from __future__ import annotations

import math
import numpy as np
from hypothesis import strategies as st

from vf.core import Sub
from vf import gen, oracle

PROPERTY = 'C11'
LEVEL = 'exploration'
RULE = ('Four generated families. vectors: 3-/4-vectors and N-row arrays (N<=6) with row norms 10**U(-100,100) and random '
        'directions -> Quaternion / QuaternionArray must be real, finite, unit to 1e-12 and parallel to the input; the invalid '
        'twin of each case (a zero vector/row, a NaN or inf entry, shapes (5,), (2,), (N,5), (2,2,4), 0-d, a string, a None entry) '
        'must raise ValueError/TypeError. dcm_valid: every DCM constructor form (matrix incl. integer dtype and nested lists, '
        'N-by-3-by-3, q=, x=/y=/z=, rpy=, euler=, axang=) -> in SO(3) to 1e-9 and equal to the input rotation. dcm_invalid: '
        'matrices farther than 1e-4 from SO(3) (det -1, scaled by 1+-1e-3.., sheared, rank-deficient, NaN, 4x4, 2x2) through '
        'DCM(), Quaternion(dcm=), QuaternionArray(DCM=) must raise ValueError/TypeError; matrices within 1e-12 of SO(3) must be '
        'accepted. ops: sums/differences with non-vanishing result, rotate_by, average (N<=20, span, weights), '
        'random_attitudes / Quaternion(random=True) / QuaternionArray(n) -> real unit quaternions (rotmat -> SO(3)); the '
        'unweighted average must maximise sum (q.q_i)^2. Non-trivial: norm outside [1e-3,1e3], an invalid twin, or N>=2.')
ASSUMPTIONS = ['the band between 1e-12 and 1e-4 from SO(3) is not generated (np.isclose boundary is not part of the statement)',
               'norms are limited to 1e-100..1e100 as in the statement (beyond 1e154 the squared norm overflows)']
REQUIRED_LABELS = ['vectors:norm=huge', 'vectors:norm=tiny', 'vectors:invalid=zero', 'vectors:invalid=nan',
                   'dcm_invalid:kind=reflection', 'dcm_invalid:kind=scaled', 'dcm_invalid:kind=sheared', 'dcm_invalid:kind=nan',
                   'dcm_invalid:kind=near_SO3']

REJECT = (ValueError, TypeError)


def _maxabs(a, b):
    d = np.abs(np.asarray(a, dtype=float) - np.asarray(b, dtype=float))
    return float(np.max(d)) if np.all(np.isfinite(d)) else math.inf


# ------------------------------------------------------------------ vectors

def _vec_case():
    @st.composite
    def build(draw):
        dim = draw(st.sampled_from([3, 4]))
        n = draw(st.integers(1, 6))
        rows = []
        for _ in range(n):
            if dim == 4:
                d = draw(gen.unit_quaternions(allow_denormal=False))
            else:
                d = draw(gen.axes())
            e = draw(st.one_of(gen.fl(-100.0, 100.0), gen.fl(-3.0, 3.0), st.sampled_from([-100.0, 100.0, 0.0])))
            rows.append([c*(10.0**e) for c in d])
        bad = draw(st.sampled_from(['zero', 'nan', 'inf', '-inf', 'shape5', 'shape2', 'shape224', '0d', 'str', 'none_inside']))
        return {'dim': dim, 'rows': rows, 'idx': draw(st.integers(0, n-1)), 'bad': bad, 'pos': draw(st.integers(0, dim-1)),
                'as_list': draw(st.booleans())}
    return build()


def _check_unit_parallel(ctx, name, out, src):
    out = np.asarray(out)
    if np.iscomplexobj(out) or out.dtype.kind != 'f':
        ctx.fail(f'{name}|dtype', f'{out.dtype}')
        return
    out = np.array(out, dtype=float)
    if out.shape != (4,):
        ctx.fail(f'{name}|shape', f'{out.shape}')
        return
    if not np.all(np.isfinite(out)):
        ctx.fail(f'{name}|nonfinite', f'{out.tolist()} from {list(src)}')
        return
    if abs(oracle.qnorm(out) - 1.0) > 1e-12:
        ctx.fail(f'{name}|nonunit', f'norm {oracle.qnorm(out)!r} from {list(src)}')
        return
    s = np.array(src, dtype=float)
    if s.shape == (3,):
        s = np.array([0.0, *s])
    m = np.max(np.abs(s))
    s = s/m
    s = s/np.linalg.norm(s)
    if abs(float(np.dot(out, s))) < 1 - 1e-12:
        ctx.fail(f'{name}|not_parallel', f'{out.tolist()} from {list(src)}')


def eval_vectors(case, ctx):
    from ahrs import Quaternion, QuaternionArray
    rows = [[float(c) for c in r] for r in case['rows']]
    n, dim, idx = len(rows), case['dim'], case['idx']
    v = rows[idx]
    nv = float(np.linalg.norm(np.array(v)/max(abs(c) for c in v))*max(abs(c) for c in v))
    cls = 'huge' if nv > 1e3 else ('tiny' if nv < 1e-3 else 'unit_scale')
    ctx.label(f'norm={cls}', f'invalid={case["bad"]}')
    ctx.nt(cls != 'unit_scale' or n >= 2)
    arg = (lambda x: [list(r) for r in x] if np.ndim(x) == 2 else list(x)) if case['as_list'] else (lambda x: np.array(x, dtype=float))
    ok, q = ctx.call('Quaternion(v)', lambda: Quaternion(arg(v)))
    if ok:
        _check_unit_parallel(ctx, 'Quaternion(v)', q, v)
    ok, Q = ctx.call('QuaternionArray(V)', lambda: QuaternionArray(arg(rows)))
    if ok:
        Qa = np.asarray(Q)
        if Qa.shape != (n, 4):
            ctx.fail('QuaternionArray(V)|shape', f'{Qa.shape}')
        else:
            for i in range(n):
                _check_unit_parallel(ctx, 'QuaternionArray(V)', Qa[i], rows[i])
    # invalid twins
    bad = case['bad']
    pos = case['pos']
    bv = list(v)
    brows = [list(r) for r in rows]
    if bad == 'zero':
        bv = [0.0]*dim
        brows[idx] = [0.0]*dim
    elif bad in ('nan', 'inf', '-inf'):
        val = {'nan': math.nan, 'inf': math.inf, '-inf': -math.inf}[bad]
        bv[pos] = val
        brows[idx][pos] = val
    elif bad == 'shape5':
        bv = list(v) + [1.0]*(5-dim)
        brows = [list(r) + [1.0]*(5-dim) for r in rows]
    elif bad == 'shape2':
        bv = list(v)[:2]
        brows = [list(r)[:2] for r in rows]
    elif bad == 'shape224':
        bv = [list(v)]
        brows = [brows, brows]
    elif bad == '0d':
        bv = np.array(1.0)
        brows = np.array(1.0)
    elif bad == 'str':
        bv = 'wxyz'
        brows = 'wxyz'
    elif bad == 'bool':
        bv = np.array([True, False, False, True][:dim])
        brows = np.array([[True, False, False, True][:dim]]*n)
    elif bad == 'none_inside':
        bv = list(v)
        bv[pos] = None
        brows[idx][pos] = None
    def as_arg(x):
        if isinstance(x, (str, np.ndarray)) or case['as_list'] or bad == 'none_inside':
            return x
        return np.array(x, dtype=float)

    for name, f in [('Quaternion(invalid)', lambda: Quaternion(as_arg(bv))),
                    ('QuaternionArray(invalid)', lambda: QuaternionArray(as_arg(brows)))]:
        try:
            r = f()
        except REJECT:
            continue
        except Exception as e:
            ctx.fail(f'{name}|wrong_exception|{bad}', f'{type(e).__name__}: {e}'[:200])
            continue
        ctx.fail(f'{name}|accepted|{bad}', f'returned {np.asarray(r).tolist()!r}'[:200])


# ------------------------------------------------------------------ DCM valid

def _dcm_valid_case():
    return st.fixed_dictionaries({
        'rot': gen.axis_angle_rotation(), 'q': gen.unit_quaternions(allow_denormal=False), 'qscale': gen.scales(),
        'angles': st.lists(gen.angles_any(), min_size=3, max_size=3),
        'seq': st.lists(st.sampled_from(list('xyzXYZ')), min_size=1, max_size=3),
        'axis_scale': gen.scales(), 'n': st.integers(1, 4)})


def _in_SO3(R, tol=1e-9):
    R = np.asarray(R, dtype=float)
    return (R.shape == (3, 3) and np.all(np.isfinite(R)) and _maxabs(R @ R.T, np.identity(3)) <= tol
            and abs(float(np.linalg.det(R)) - 1.0) <= tol)


def eval_dcm_valid(case, ctx):
    from ahrs import DCM
    cls, ax, ang = case['rot']
    R = oracle.rodrigues(ax, float(ang))
    q = np.array(case['q'], dtype=float)
    a3 = [float(x) for x in case['angles']]
    seq = ''.join(case['seq'])
    ctx.label(f'cls={cls}')
    ctx.nt(True)
    forms = [
        ('DCM(R)', lambda: DCM(np.array(R)), R),
        ('DCM(R.tolist())', lambda: DCM(np.array(R).tolist()), R),
        ('DCM(q=)', lambda: DCM(q=np.array(q)*float(case['qscale'])), oracle.q2R(q)),
        ('DCM(x=)', lambda: DCM(x=a3[0]), oracle.elem('x', a3[0])),
        ('DCM(y=)', lambda: DCM(y=a3[1]), oracle.elem('y', a3[1])),
        ('DCM(z=)', lambda: DCM(z=a3[2]), oracle.elem('z', a3[2])),
        ('DCM(x=,y=,z=)', lambda: DCM(x=a3[0], y=a3[1], z=a3[2]), None),
        ('DCM(rpy=)', lambda: DCM(rpy=np.array(a3)), None),
        ('DCM(euler=)', lambda: DCM(euler=(seq, a3[:len(seq)])), None),
        ('DCM(axang=)', lambda: DCM(axang=(np.array(ax)*float(case['axis_scale']), float(ang))), R),
        ('DCM()', lambda: DCM(), np.identity(3)),
        ('DCM.from_axisangle', lambda: DCM().from_axisangle(np.array(ax)*float(case['axis_scale']), float(ang)), R),
        ('DCM.from_axang', lambda: DCM().from_axang(np.array(ax)*float(case['axis_scale']), float(ang)), R),
        ('DCM.from_quaternion', lambda: DCM().from_quaternion(np.array(q)*float(case['qscale'])), oracle.q2R(q)),
        ('DCM.from_q', lambda: DCM().from_q(np.array(q)*float(case['qscale'])), oracle.q2R(q)),
    ]
    if abs(float(case['axis_scale']) - 1.0) < 1e-3 and float(case['axis_scale']) != 1.0:
        ctx.label('axis_almost_unit')
    if abs(float(case['qscale']) - 1.0) < 1e-3 and float(case['qscale']) != 1.0:
        ctx.label('quaternion_almost_unit')
    for name, f, ref in forms:
        ok, D = ctx.call(name, f)
        if not ok:
            continue
        Da = np.asarray(D)
        if not _in_SO3(Da):
            ctx.fail(f'{name}|not_SO3', f'{np.asarray(Da).tolist()}'[:300])
            continue
        if ref is not None and _maxabs(Da, ref) > 1e-7:
            ctx.fail(f'{name}|differs_from_input', f'err {_maxabs(Da, ref):.3e}')
    # integer-valued rotations given with an integer dtype (signed permutation matrices)
    perm = np.array([[0, -1, 0], [1, 0, 0], [0, 0, 1]]) if case['n'] % 2 else np.identity(3, dtype=int)
    ok, D = ctx.call('DCM(int matrix)', lambda: DCM(np.array(perm)))
    if ok and (not _in_SO3(np.asarray(D)) or _maxabs(np.asarray(D), perm) > 1e-12):
        ctx.fail('DCM(int matrix)|not_the_input_rotation', f'{np.asarray(D).tolist()}')
    n = case['n']
    stack = np.array([oracle.rodrigues(ax, float(ang)*(i+1)/n) for i in range(n)])
    ok, D = ctx.call('DCM(N,3,3)', lambda: DCM(np.array(stack)))
    if ok:
        Da = np.asarray(D)
        if Da.shape != (n, 3, 3) or not all(_in_SO3(x) for x in Da) or _maxabs(Da, stack) > 1e-12:
            ctx.fail('DCM(N,3,3)|bad', f'shape {Da.shape}')


# ------------------------------------------------------------------ DCM invalid

def _dcm_invalid_case():
    kind = st.sampled_from(['reflection', 'scaled', 'sheared', 'rank_deficient', 'nan', 'inf', '4x4', '2x2', 'near_SO3', 'neg_scaled'])
    return st.fixed_dictionaries({
        'rot': gen.axis_angle_rotation(), 'kind': kind, 'eps': gen.log_uniform(-3, 0), 'i': st.integers(0, 2), 'j': st.integers(0, 2),
        'sign': gen.signs(), 'n': st.integers(1, 4), 'idx': st.integers(0, 3),
        'tiny': st.lists(gen.fl(-1e-13, 1e-13), min_size=9, max_size=9)})


def eval_dcm_invalid(case, ctx):
    from ahrs import DCM, Quaternion, QuaternionArray
    cls, ax, ang = case['rot']
    R = oracle.rodrigues(ax, float(ang))
    kind = case['kind']
    eps = float(case['eps'])
    i, j = case['i'], case['j']
    ctx.label(f'kind={kind}')
    ctx.nt(True)
    B = np.array(R)
    if kind == 'reflection':
        B[:, i] *= -1.0
    elif kind == 'scaled':
        B = B*(1.0 + case['sign']*eps)
    elif kind == 'neg_scaled':
        B = -B
    elif kind == 'sheared':
        S = np.identity(3)
        S[i, (i+1) % 3] = eps*case['sign']
        B = S @ B
    elif kind == 'rank_deficient':
        B[i, :] = B[(i+1) % 3, :]
    elif kind == 'nan':
        B[i, j] = math.nan
    elif kind == 'inf':
        B[i, j] = math.inf
    elif kind == '4x4':
        B4 = np.identity(4)
        B4[:3, :3] = B
        B = B4
    elif kind == '2x2':
        B = B[:2, :2]
    elif kind == 'near_SO3':
        B = B + np.array(case['tiny'], dtype=float).reshape(3, 3)
    n = case['n']
    idx = case['idx'] % n
    stack = np.array([oracle.rodrigues(ax, 0.3*(k+1)) for k in range(n)])
    if kind == 'near_SO3':
        for name, f in [('DCM(R)', lambda: np.asarray(DCM(np.array(B)))),
                        ('Quaternion(dcm=)', lambda: oracle.q2R(np.asarray(Quaternion(dcm=np.array(B)), dtype=float))),
                        ('QuaternionArray(DCM=)', lambda: oracle.q2R(np.asarray(QuaternionArray(DCM=np.array([B])), dtype=float)[0]))]:
            ok, D = ctx.call(f'near_SO3:{name}', f)
            if ok and (not _in_SO3(D, 1e-9) or _maxabs(D, R) > 1e-9):
                ctx.fail(f'near_SO3:{name}|bad_result', f'err {_maxabs(D, R):.3e}')
        return
    entries = [('DCM(R)', lambda: DCM(np.array(B)))]
    if B.shape == (3, 3):
        entries.append(('Quaternion(dcm=)', lambda: Quaternion(dcm=np.array(B))))
        st_ = np.array(stack)
        st_[idx] = B
        entries.append(('QuaternionArray(DCM=)', lambda: QuaternionArray(DCM=np.array(st_))))
        entries.append(('DCM(N,3,3)', lambda: DCM(np.array(st_))))
    for name, f in entries:
        try:
            r = f()
        except REJECT:
            continue
        except Exception as e:
            ctx.fail(f'{name}|wrong_exception|{kind}', f'{type(e).__name__}: {e}'[:200])
            continue
        ctx.fail(f'{name}|accepted|{kind}', f'returned {np.asarray(r).tolist()!r}'[:200])


# ------------------------------------------------------------------ operations that must stay on the unit sphere

def _ops_case():
    @st.composite
    def build(draw):
        n = draw(st.integers(1, 20))
        mode = draw(st.sampled_from(['random', 'cluster', 'copies']))
        center = draw(gen.unit_quaternions(allow_denormal=False))
        rows = []
        for _ in range(n):
            if mode == 'random':
                rows.append(draw(gen.unit_quaternions(allow_denormal=False)))
            elif mode == 'copies':
                s = draw(gen.signs())
                rows.append([s*c for c in center])
            else:
                d = [draw(gen.fl(-0.2, 0.2)) for _ in range(4)]
                s = draw(gen.signs())
                rows.append([s*(center[k] + d[k]) for k in range(4)])
        lo = draw(st.integers(0, n-1))
        hi = draw(st.integers(lo+1, n))
        return {'rows': rows, 'mode': mode, 'center': center, 'p': draw(gen.unit_quaternions(allow_denormal=False)),
                'pscale': draw(gen.log_uniform(-2, 2)), 'span': draw(st.one_of(st.none(), st.just([lo, hi]))),
                'weights': draw(st.one_of(st.none(), st.lists(gen.log_uniform(-2, 2), min_size=n, max_size=n))),
                'nrand': draw(st.integers(1, 5))}
    return build()


def _unit_rows(ctx, name, out, n=None):
    out = np.asarray(out)
    if np.iscomplexobj(out):
        ctx.fail(f'{name}|complex', f'dtype {out.dtype}')
        return False
    out = np.array(out, dtype=float)
    if out.ndim == 1:
        out = out[None, :]
    if out.shape[-1] != 4 or (n is not None and out.shape[0] != n):
        ctx.fail(f'{name}|shape', f'{out.shape}')
        return False
    if not np.all(np.isfinite(out)):
        ctx.fail(f'{name}|nonfinite', '')
        return False
    e = float(np.max(np.abs(np.linalg.norm(out, axis=1) - 1.0)))
    if e > 1e-12:
        ctx.fail(f'{name}|nonunit', f'norm off by {e:.3e}')
        return False
    return True


def eval_ops(case, ctx):
    import ahrs
    from ahrs import Quaternion, QuaternionArray
    from ahrs.common.quaternion import random_attitudes
    rows = np.array(case['rows'], dtype=float)
    n = len(rows)
    p = np.array(case['p'], dtype=float)
    ps = p*float(case['pscale'])
    q0 = rows[0]/np.linalg.norm(rows[0])
    ctx.label(f'mode={case["mode"]}')
    ctx.nt(n >= 2)
    # sums and differences
    for name, f, raw in [('add', lambda: Quaternion(np.array(q0)) + np.array(ps), q0 + ps),
                         ('sub', lambda: Quaternion(np.array(q0)) - np.array(ps), q0 - ps),
                         ('add_Quaternion', lambda: Quaternion(np.array(q0)) + Quaternion(np.array(p)), q0 + p)]:
        if np.linalg.norm(raw) < 1e-6:
            continue
        ok, r = ctx.call(name, f)
        if ok and _unit_rows(ctx, name, r, 1):
            if abs(float(np.dot(np.asarray(r, dtype=float), raw/np.linalg.norm(raw)))) < 1 - 1e-12:
                ctx.fail(f'{name}|not_parallel_to_sum', '')
    # rotate_by
    ok, Q = ctx.call('QuaternionArray', lambda: QuaternionArray(np.array(rows)))
    if not ok:
        return
    Qn = rows/np.linalg.norm(rows, axis=1)[:, None]
    ok, r = ctx.call('rotate_by', lambda: Q.rotate_by(np.array(ps)))
    if ok and _unit_rows(ctx, 'rotate_by', r, n):
        ref = np.array([oracle.qmul(p, x) for x in Qn])
        if _maxabs(r, ref) > 1e-12:
            ctx.fail('rotate_by|not_left_product', f'err {_maxabs(r, ref):.3e}')
    # average
    span = tuple(case['span']) if case['span'] else None
    w = np.array(case['weights'], dtype=float) if case['weights'] else None
    sub = Qn if span is None else Qn[span[0]:span[1]]
    if w is not None and span is not None:
        w = w[:len(sub)]
    ok, avg = ctx.call('average', lambda: Q.average(span=span, weights=None if w is None else np.array(w)))
    if ok and _unit_rows(ctx, 'average', avg, 1):
        avg = np.array(np.asarray(avg), dtype=float).reshape(4)
        if w is None:
            Mx = sub.T @ sub
            lam = float(np.linalg.eigvalsh(Mx)[-1])
            val = float(avg @ Mx @ avg)
            if val < lam - 1e-9*max(1.0, lam):
                ctx.fail('average|not_the_maximiser', f'objective {val!r} < lambda_max {lam!r} (N={len(sub)})')
        if case['mode'] == 'copies':
            c = np.array(case['center'], dtype=float)
            if abs(float(np.dot(avg, c))) < 1 - 1e-9:
                ctx.fail('average|copies_not_recovered', f'{avg.tolist()} vs {c.tolist()}')
    # random attitudes
    k = case['nrand']
    ok, r = ctx.call('random_attitudes', lambda: random_attitudes(k))
    if ok:
        _unit_rows(ctx, 'random_attitudes', r, k)
    ok, r = ctx.call('random_attitudes[rotmat]', lambda: np.asarray(random_attitudes(k, representation='rotmat')))
    if ok:
        Rr = r if r.ndim == 3 else r[None]
        if Rr.shape != (k, 3, 3) or not all(_in_SO3(x) for x in Rr):
            ctx.fail('random_attitudes[rotmat]|not_SO3', f'shape {r.shape}')
    ok, r = ctx.call('Quaternion(random=True)', lambda: Quaternion(random=True))
    if ok:
        _unit_rows(ctx, 'Quaternion(random=True)', r, 1)
    ok, r = ctx.call('Quaternion.random', lambda: Quaternion().random())
    if ok:
        _unit_rows(ctx, 'Quaternion.random', r, 1)
    ok, r = ctx.call('QuaternionArray(n)', lambda: QuaternionArray(k))
    if ok:
        _unit_rows(ctx, 'QuaternionArray(n)', r, k)


# ------------------------------------------------------------------ structured byte-level inputs (also the atheris target)

def _fuzz_case():
    specials = [0.0, -0.0, 1.0, -1.0, 'nan', 'inf', '-inf', 1e-100, 1e100, 5e-324, 1e-300, 0.5]
    val = st.one_of(gen.fl(-2.0, 2.0), st.sampled_from(specials))

    @st.composite
    def build(draw):
        target = draw(st.sampled_from(['Quaternion', 'QuaternionArray', 'DCM']))
        if draw(st.booleans()):
            shape = draw(st.sampled_from({'Quaternion': [[4], [3]], 'QuaternionArray': [[2, 4], [1, 3], [3, 4]], 'DCM': [[3, 3], [2, 3, 3]]}[target]))
        else:
            shape = draw(st.lists(st.integers(1, 5), min_size=0, max_size=3))
        size = int(np.prod(shape)) if shape else 1
        rot = None
        if target == 'DCM' or draw(st.booleans()):
            rot = {'axis': [draw(gen.fl(-1, 1)) for _ in range(3)], 'angle': draw(gen.fl(-3.2, 3.2)),
                   'perturb': draw(st.sampled_from([0.0, 1e-13, 1e-3, -1e-3, 0.5])), 'kind': draw(st.sampled_from(['none', 'scale', 'reflect', 'shear', 'entry']))}
        return {'target': target, 'shape': shape, 'dtype': draw(st.sampled_from(['float', 'float', 'float', 'int', 'bool', 'object', 'str'])),
                'vals': [draw(val) for _ in range(size)], 'rot': rot, 'as_list': draw(st.booleans())}
    return build()


def eval_fuzz(case, ctx):
    """Two-sided predicate over arbitrary array-like inputs of the three constructors."""
    from ahrs import Quaternion, QuaternionArray, DCM
    target, shape, dtype = case['target'], list(case['shape']), case['dtype']
    vals = [float(v) if not isinstance(v, str) else float(v) for v in case['vals']]
    ctx.label(f'target={target}', f'dtype={dtype}')
    ctx.nt(True)
    arr = np.array(vals, dtype=float).reshape(shape) if shape else np.array(vals[0])
    rot = case.get('rot')
    if target == 'DCM' and rot is not None and shape in ([3, 3], [2, 3, 3]):
        ax = np.array(rot['axis'], dtype=float)
        if np.linalg.norm(ax) < 1e-3:
            ax = np.array([0.0, 0.0, 1.0])
        R = oracle.rodrigues(ax, float(rot['angle']))
        k, pz = rot['kind'], float(rot['perturb'])
        if k == 'scale':
            R = R*(1.0 + pz)
        elif k == 'reflect':
            R = R.copy()
            R[:, 0] *= -1.0
        elif k == 'shear':
            S = np.identity(3)
            S[0, 1] = pz
            R = S @ R
        elif k == 'entry':
            R = R.copy()
            R[1, 2] += pz
        arr = R if shape == [3, 3] else np.array([oracle.rodrigues([0, 0, 1.0], 0.3), R])
    if dtype == 'int':
        if not np.all(np.isfinite(arr)):
            dtype = 'float'
        else:
            arr = np.round(arr).astype(int)
    elif dtype == 'bool':
        arr = np.nan_to_num(arr) != 0
    elif dtype == 'object':
        arr = arr.astype(object)
    elif dtype == 'str':
        arr = arr.astype(str)
    arg = arr.tolist() if case['as_list'] and arr.ndim >= 1 else arr
    numeric = dtype in ('float', 'int')
    a = np.asarray(arr, dtype=float) if numeric else None
    finite = numeric and bool(np.all(np.isfinite(a)))
    verdict = 'skip'
    if target == 'Quaternion':
        if not numeric or a.ndim != 1 or a.shape[0] not in (3, 4) or not finite or not np.any(a):
            verdict = 'invalid'
        else:
            nrm = float(np.linalg.norm(a/np.max(np.abs(a)))*np.max(np.abs(a)))
            verdict = 'valid' if 1e-100 <= nrm <= 1e100 else 'skip'
        if dtype == 'bool':
            verdict = 'skip'
    elif target == 'QuaternionArray':
        if dtype in ('object', 'str') or (numeric and (a.ndim != 2 or a.shape[1] not in (3, 4))) or (numeric and a.ndim == 2 and a.shape[1] in (3, 4) and (not finite or np.any(~np.any(a != 0, axis=1)))):
            verdict = 'invalid'
        elif numeric and finite:
            nr = np.array([np.linalg.norm(r/np.max(np.abs(r)))*np.max(np.abs(r)) for r in a])
            verdict = 'valid' if np.all((nr >= 1e-100) & (nr <= 1e100)) else 'skip'
        if dtype == 'bool':
            verdict = 'skip'
    else:
        if not numeric or a.ndim not in (2, 3) or a.shape[-2:] != (3, 3) or not finite:
            verdict = 'invalid'
        else:
            mats = a if a.ndim == 3 else a[None]
            dist = max(max(float(np.max(np.abs(m @ m.T - np.identity(3)))), abs(float(np.linalg.det(m)) - 1.0)) for m in mats)
            verdict = 'valid' if dist <= 1e-12 else ('invalid' if dist > 1e-4 else 'skip')
        if dtype == 'bool':
            verdict = 'skip'
    if not numeric:
        verdict = 'skip'        # bool / object / str content is not among the kinds the statement says must be rejected
    ctx.label(f'verdict={verdict}')
    if verdict == 'skip':
        return
    cls = {'Quaternion': Quaternion, 'QuaternionArray': QuaternionArray, 'DCM': DCM}[target]
    try:
        obj = cls(arg)
    except REJECT:
        if verdict == 'valid':
            ctx.fail(f'fuzz|{target}|valid_input_rejected', f'shape {shape} dtype {dtype}: {np.asarray(arr).tolist()!r}'[:250])
        return
    except Exception as e:
        ctx.fail(f'fuzz|{target}|wrong_exception|{type(e).__name__}', f'shape {shape} dtype {dtype}: {type(e).__name__}: {e}'[:250])
        return
    if verdict == 'invalid':
        ctx.fail(f'fuzz|{target}|invalid_input_accepted|{dtype}', f'shape {shape} dtype {dtype}: {np.asarray(arr).tolist()!r} -> {np.asarray(obj).tolist()!r}'[:300])
        return
    o = np.asarray(obj, dtype=float)
    if target == 'DCM':
        mats = o if o.ndim == 3 else o[None]
        if not all(_in_SO3(m) for m in mats):
            ctx.fail(f'fuzz|{target}|valid_input_gives_invalid_object', f'{o.tolist()!r}'[:250])
    else:
        rows = o if o.ndim == 2 else o[None]
        if not np.all(np.isfinite(rows)) or float(np.max(np.abs(np.linalg.norm(rows, axis=1) - 1.0))) > 1e-12:
            ctx.fail(f'fuzz|{target}|valid_input_gives_invalid_object', f'{o.tolist()!r}'[:250])


def selftest():
    oracle.selftest()


SUBCHECKS = {
    'vectors': Sub(lambda tier: _vec_case(), eval_vectors, quick=8000, thorough=400000),
    'dcm_valid': Sub(lambda tier: _dcm_valid_case(), eval_dcm_valid, quick=5000, thorough=300000),
    'dcm_invalid': Sub(lambda tier: _dcm_invalid_case(), eval_dcm_invalid, quick=6000, thorough=300000),
    'ops': Sub(lambda tier: _ops_case(), eval_ops, quick=5000, thorough=300000),
    'fuzz': Sub(lambda tier: _fuzz_case(), eval_fuzz, quick=8000, thorough=400000),
}

FUZZ = True      # thorough tier additionally runs the atheris campaign of vf/fuzz/target.py on the 'fuzz' sub-check
