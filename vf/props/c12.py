"""C12 — SLERP follows the shortest geodesic at constant speed; NaN gaps filled along it; sign jumps removed."""
from __future__ import annotations

import math
import numpy as np
from hypothesis import strategies as st

from vf.core import Sub
from vf import gen, oracle

PROPERTY = 'C12'
LEVEL = 'exploration'
RULE = ('slerp: endpoint p from the shared unit-quaternion mixture, q = +-(p rotated on S^3 by an arc Omega towards a random '
        'orthogonal direction) with Omega classes generic / below the LERP threshold (dot>0.9995) / straddling it '
        '(0.9990..0.9999) / orthogonal / obtuse / nearly antipodal (dot<-0.9995) / tiny (1e-9..1e-3); weight vectors of length '
        '1-12 in [0,1] incl. 0 and 1; both copies (quaternion.slerp with list and ndarray arguments, orientation.slerp with '
        'ndarrays). Oracle: unit to 1e-12, r(0)=p, r(1)=+-q, r(t) in span{p,q} with non-negative coefficients, angle(p,r(t)) = '
        't*Omega (1e-7 on the SLERP branch, Omega^3/32+1e-9 on the LERP branch), slerp(p,-q)=slerp(p,q). nan_fill: smooth '
        'sequences (steps <= 20 deg, length 4-40) with 0-4 disjoint interior NaN runs and a random sign-flip pattern through '
        'QuaternionArray.slerp_nan (inplace and not) and get_nan_intervals: no NaN left, valid rows unchanged up to sign, gap row '
        'k of m equals the own great-arc interpolant at k/(m+1) of its neighbours. jumps (steps up to 100 deg): remove_jumps / q_correct give rows '
        'equal to +- the input rows with all consecutive dot products > 0. history: one QuaternionArray goes through 3-8 generated operations (in-place sign flips of row blocks, rows set to NaN, slerp_nan in place / as a copy, remove_jumps): every finite row stays +- its rotation and after EVERY remove_jumps consecutive finite rows have positive dot products. Non-trivial: Omega>=0.1 with >=3 weights, >=2 gaps, '
        'or >=2 flips; distinct = case hash.')
ASSUMPTIONS = ['orientation.slerp is given ndarrays (it uses the @ operator), quaternion.slerp lists or ndarrays',
               'NaN runs are interior (the statement speaks of neighbouring valid rows)']
REQUIRED_LABELS = ['slerp:cls=lerp', 'slerp:cls=straddle', 'slerp:cls=antipodal', 'slerp:cls=generic',
                   'nan_fill:gaps=0', 'nan_fill:gaps>=2', 'jumps:flips>=2', 'history:remove_jumps_again_on_same_object', 'history:op=slerp_nan_inplace']
PI = math.pi


def _maxabs(a, b):
    d = np.abs(np.asarray(a, dtype=float) - np.asarray(b, dtype=float))
    return float(np.max(d)) if d.size and np.all(np.isfinite(d)) else (math.inf if d.size else 0.0)


def _orth_dir(p, d):
    """Unit vector orthogonal to p from the raw direction d (Gram-Schmidt, with fallbacks)."""
    p = np.array(p, dtype=float)
    for cand in (np.array(d, dtype=float), np.array([1.0, 0, 0, 0]), np.array([0, 1.0, 0, 0]), np.array([0, 0, 1.0, 0])):
        o = cand - float(np.dot(cand, p))*p
        n = float(np.linalg.norm(o))
        if n > 1e-3:
            return o/n
    raise AssertionError


def _slerp_case():
    omega = st.one_of(
        st.tuples(st.just('generic'), gen.fl(0.05, 1.5)),
        st.tuples(st.just('lerp'), gen.fl(1e-3, 0.0316)),
        st.tuples(st.just('straddle'), gen.fl(0.0141, 0.0448)),
        st.tuples(st.just('tiny'), gen.log_uniform(-9, -3)),
        st.tuples(st.just('orthogonal'), st.just(PI/2)),
        st.tuples(st.just('obtuse'), gen.fl(PI/2 + 0.01, PI - 0.05)),
        st.tuples(st.just('antipodal'), gen.log_uniform(-6, -1.5).map(lambda d: PI - d)))
    tt = st.lists(st.one_of(gen.fl(0.0, 1.0), st.sampled_from([0.0, 1.0, 0.5, 0.25])), min_size=1, max_size=12)
    return st.fixed_dictionaries({'p': gen.unit_quaternions(allow_denormal=False),
                                  'd': st.lists(gen.fl(-1.0, 1.0), min_size=4, max_size=4),
                                  'omega': omega, 't': tt, 'as_list': st.booleans()})


def eval_slerp(case, ctx):
    from ahrs.common import quaternion as qmod
    from ahrs.common import orientation as ori
    p = np.array(case['p'], dtype=float)
    p = p/np.linalg.norm(p)
    cls, om = case['omega']
    om = float(om)
    o = _orth_dir(p, case['d'])
    q = math.cos(om)*p + math.sin(om)*o          # arc of length om from p (om > pi/2: the antipode is nearer)
    q = q/np.linalg.norm(q)
    t = np.array([float(x) for x in case['t']], dtype=float)
    ctx.label(f'cls={cls}')
    Om = oracle.arc_angle(p, q)                  # minor arc between p and +-q, in [0, pi/2]
    ctx.nt(Om >= 0.1 and len(t) >= 3)
    qn = q if float(np.dot(p, q)) >= 0 else -q   # the nearer representative
    tie = abs(float(np.dot(p, q))) < 1e-12       # q and -q equally near: the statement leaves the choice open
    if tie:
        ctx.label('tie')
    lerp_branch = abs(float(np.dot(p, q))) > 0.9995
    near_threshold = abs(abs(float(np.dot(p, q))) - 0.9995) < 1e-12

    def arg(x):
        return [float(c) for c in x] if case['as_list'] else np.array(x, dtype=float)

    routes = [('quaternion.slerp', lambda a, b: qmod.slerp(arg(a), arg(b), arg(t))),
              ('orientation.slerp', lambda a, b: ori.slerp(np.array(a, dtype=float), np.array(b, dtype=float), np.array(t)))]
    for name, f in routes:
        ok, r = ctx.call(name, lambda: np.asarray(f(p, q), dtype=float))
        if not ok:
            continue
        if r.shape != (len(t), 4):
            ctx.fail(f'{name}|shape', f'{r.shape} for {len(t)} weights')
            continue
        if not np.all(np.isfinite(r)):
            ctx.fail(f'{name}|nonfinite|{cls}', '')
            continue
        e = float(np.max(np.abs(np.linalg.norm(r, axis=1) - 1.0)))
        if e > 1e-12:
            ctx.fail(f'{name}|nonunit|{cls}', f'norm off by {e:.3e}')
        worst = 0.0
        for k, tk in enumerate(t):
            rk = r[k]
            if tk == 0.0 and _maxabs(rk, p) > 1e-12:
                ctx.fail(f'{name}|start_not_p|{cls}', f'{rk.tolist()}')
            if tie:
                continue
            if tk == 1.0 and _maxabs(rk, qn) > 1e-9:
                ctx.fail(f'{name}|end_not_nearer_q|{cls}', f'{rk.tolist()} vs {qn.tolist()}')
            # span{p, qn} with non-negative coefficients
            if Om > 1e-6:
                A = np.c_[p, qn]
                coef, *_ = np.linalg.lstsq(A, rk, rcond=None)
                res = float(np.linalg.norm(A @ coef - rk))
                if res > 1e-9:
                    ctx.fail(f'{name}|off_the_great_circle|{cls}', f'residual {res:.3e}')
                elif min(coef) < -1e-9/max(math.sin(Om), 1e-6):
                    ctx.fail(f'{name}|not_minor_arc|{cls}', f'coefficients {coef.tolist()} at t={tk!r}')
            # constant speed
            ang = math.atan2(float(np.linalg.norm(rk - float(np.dot(rk, p))*p)), float(np.dot(rk, p)))
            tol = (Om**3/32 + 1e-9) if lerp_branch or near_threshold else 1e-7
            err = abs(ang - tk*Om)
            worst = max(worst, err/tol)
            if err > tol:
                ctx.fail(f'{name}|not_constant_speed|{cls}', f't={tk!r} angle {ang!r} expected {tk*Om!r} (Omega={Om!r})')
            ref = oracle.slerp(p, q, float(tk))
            if _maxabs(rk, ref) > (Om**3/32 + 1e-9 if lerp_branch or near_threshold else 1e-7):
                ctx.fail(f'{name}|differs_from_great_arc|{cls}', f't={tk!r} err {_maxabs(rk, ref):.3e}')
        ctx.target(worst, 'speed_err')
        # sign of the second endpoint is irrelevant
        ok, r2 = ctx.call(name, lambda: np.asarray(f(p, -q), dtype=float))
        if ok and not tie and (r2.shape != r.shape or _maxabs(r2, r) > 1e-12):
            ctx.fail(f'{name}|depends_on_sign_of_q|{cls}', f'err {_maxabs(r2, r) if r2.shape == r.shape else r2.shape}')


# ------------------------------------------------------------------ histories

def make_sequence(seed: int, n: int, max_step_deg: float = 20.0):
    """Smooth unit-quaternion sequence: a pure function of (seed, n).  The bulk data come from a PRNG seeded by a
    Hypothesis-drawn integer (cheap, replayable); all structural choices (gaps, flips, lengths) stay in Hypothesis."""
    rs = np.random.RandomState(seed)
    q = rs.randn(4)
    q = q/np.linalg.norm(q)
    out = [q]
    for _ in range(n-1):
        ax = rs.randn(3)
        ang = rs.uniform(0.0, math.radians(max_step_deg)) if rs.rand() > 0.1 else 0.0
        q = oracle.qmul(q, oracle.axang2q(ax, ang))
        q = q/np.linalg.norm(q)
        out.append(q)
    return np.array(out)


def _seq(case):
    sq = case['seq']
    if isinstance(sq, dict):
        return make_sequence(sq['seed'], sq['n'], sq.get('max_step_deg', 20.0))
    return np.array(sq, dtype=float)          # explicit rows (hand-written or older replay files)


@st.composite
def smooth_sequence(draw, lo=4, hi=40):
    return {'seed': draw(st.integers(0, 2**31-1)), 'n': draw(st.integers(lo, hi))}


def _nan_case():
    @st.composite
    def build(draw):
        seq = draw(smooth_sequence())
        n = seq['n']
        flips = draw(st.lists(st.sampled_from([1.0, 1.0, 1.0, -1.0]), min_size=n, max_size=n))
        if draw(st.booleans()):
            flips = [1.0]*n
        # disjoint interior runs
        ngaps = draw(st.integers(0, 4))
        marks = [False]*n
        for _ in range(ngaps):
            a = draw(st.integers(1, max(1, n-2)))
            ln = draw(st.integers(1, 5))
            b = min(a+ln-1, n-2)
            if a > b:
                continue
            if any(marks[max(0, a-1):min(n, b+2)]):
                continue            # keep runs separated by at least one valid row
            for i in range(a, b+1):
                marks[i] = True
        return {'seq': seq, 'flips': flips, 'nan': marks, 'inplace': draw(st.booleans())}
    return build()


def _runs(marks):
    runs, i, n = [], 0, len(marks)
    while i < n:
        if marks[i]:
            j = i
            while j+1 < n and marks[j+1]:
                j += 1
            runs.append((i, j))
            i = j+1
        else:
            i += 1
    return runs


def eval_nan(case, ctx):
    from ahrs import QuaternionArray
    from ahrs.utils.core import get_nan_intervals
    seq = _seq(case)
    n = len(seq)
    flips = np.array(case['flips'], dtype=float)
    marks = list(case['nan'])
    runs = _runs(marks)
    nflips = int(np.sum(np.abs(np.diff(flips)) > 0))
    ctx.label('gaps=0' if not runs else ('gaps=1' if len(runs) == 1 else 'gaps>=2'))
    ctx.nt(len(runs) >= 2 or nflips >= 2)
    data = seq*flips[:, None]
    ok, Q = ctx.call('QuaternionArray', lambda: QuaternionArray(np.array(data)))
    if not ok:
        return
    for i, m in enumerate(marks):
        if m:
            Q[i] = np.nan
    with_nan = np.array(data)
    with_nan[np.array(marks, dtype=bool)] = np.nan
    # interval finder
    ok, iv = ctx.call('get_nan_intervals', lambda: get_nan_intervals(np.array(with_nan)))
    if ok:
        got = [(int(a), int(b)) for a, b in iv]
        if got != runs:
            ctx.fail('get_nan_intervals|wrong', f'{got} expected {runs}')
    inplace = bool(case['inplace'])
    ok, out = ctx.call('slerp_nan' + ('' if runs else '[no_nan]'), lambda: Q.slerp_nan(inplace=inplace))
    if not ok:
        return
    if inplace:
        if out is not None:
            ctx.fail('slerp_nan|inplace_returns_value', '')
        out = np.array(np.asarray(Q.array), dtype=float)
    else:
        out = np.array(np.asarray(out), dtype=float)
    if out.shape != (n, 4):
        ctx.fail('slerp_nan|shape', f'{out.shape}')
        return
    if np.any(np.isnan(out)):
        ctx.fail('slerp_nan|nan_left', f'rows {np.where(np.isnan(out).any(axis=1))[0].tolist()} with runs {runs}')
        return
    # valid rows unchanged up to sign (bit-exact when no flip was applied)
    for i in range(n):
        if marks[i]:
            continue
        if nflips == 0:
            if not np.array_equal(out[i], np.asarray(Q.array if inplace else out)[i]) or _maxabs(out[i], data[i]) > 0 and _maxabs(out[i], data[i]/np.linalg.norm(data[i])) > 1e-15:
                ctx.fail('slerp_nan|valid_row_changed', f'row {i}')
        else:
            if min(_maxabs(out[i], data[i]), _maxabs(out[i], -data[i])) > 1e-15:
                ctx.fail('slerp_nan|valid_row_changed', f'row {i}')
    # gap rows are the great-arc interpolants of their neighbours
    for a, b in runs:
        m = b - a + 1
        L, R = out[a-1], out[b+1]
        for k in range(1, m+1):
            ref = oracle.slerp(L, R, k/(m+1))
            Om = oracle.arc_angle(L, R)
            tol = Om**3/32 + 1e-9 if abs(float(np.dot(L, R))) > 0.9995 - 1e-12 else 1e-7
            if _maxabs(out[a+k-1], ref) > tol:
                ctx.fail('slerp_nan|gap_row_not_on_arc', f'run {(a, b)} row {a+k-1}: err {_maxabs(out[a+k-1], ref):.3e}')
                break


def _jump_case():
    @st.composite
    def build(draw):
        seq = draw(smooth_sequence(3, 40))
        # steps up to 100 deg are still unambiguous for the documented jump rule (|dq| > 1 <=> step > 120 deg)
        seq['max_step_deg'] = draw(st.sampled_from([20.0, 60.0, 100.0]))
        n = seq['n']
        mode = draw(st.sampled_from(['random', 'blocks', 'alternate', 'none']))
        if mode == 'random':
            flips = draw(st.lists(gen.signs(), min_size=n, max_size=n))
        elif mode == 'alternate':
            flips = [1.0 if i % 2 == 0 else -1.0 for i in range(n)]
        elif mode == 'none':
            flips = [1.0]*n
        else:
            flips, s = [], 1.0
            toggles = draw(st.lists(st.integers(0, 4), min_size=n, max_size=n))
            for i in range(n):
                if toggles[i] == 0:
                    s = -s
                flips.append(s)
        return {'seq': seq, 'flips': flips}
    return build()


def eval_jumps(case, ctx):
    from ahrs import QuaternionArray
    from ahrs.common import orientation as ori
    seq = _seq(case)
    flips = np.array(case['flips'], dtype=float)
    data = seq*flips[:, None]
    nflips = int(np.sum(np.abs(np.diff(flips)) > 0))
    ctx.label('flips>=2' if nflips >= 2 else f'flips={nflips}')
    ctx.nt(nflips >= 2)

    def judge(name, out):
        out = np.array(np.asarray(out), dtype=float)
        if out.shape != data.shape:
            ctx.fail(f'{name}|shape', f'{out.shape}')
            return
        for i in range(len(out)):
            if min(_maxabs(out[i], data[i]), _maxabs(out[i], -data[i])) > 1e-15:
                ctx.fail(f'{name}|row_not_pm_input', f'row {i}')
                return
        dots = np.sum(out[1:]*out[:-1], axis=1)
        if np.any(dots <= 0):
            ctx.fail(f'{name}|jump_left', f'at rows {np.where(dots <= 0)[0].tolist()} flips={case["flips"]}')

    ok, Q = ctx.call('QuaternionArray', lambda: QuaternionArray(np.array(data)))
    if ok:
        ok, _ = ctx.call('remove_jumps', lambda: Q.remove_jumps())
        if ok:
            judge('remove_jumps', Q.array)
    ok, out = ctx.call('q_correct', lambda: ori.q_correct(np.array(data)))
    if ok:
        judge('q_correct', out)


# ------------------------------------------------------------------ one object, several operations

def _history_case():
    @st.composite
    def build(draw):
        seq = draw(smooth_sequence(6, 30))
        seq['max_step_deg'] = draw(st.sampled_from([20.0, 60.0]))
        n = seq['n']
        flips = draw(st.lists(gen.signs(), min_size=n, max_size=n))
        ops = []
        for _ in range(draw(st.integers(2, 7))):
            kind = draw(st.sampled_from(['remove_jumps', 'remove_jumps', 'flip', 'flip', 'nan', 'slerp_nan_inplace', 'slerp_nan_copy']))
            if kind in ('flip', 'nan'):
                a = draw(st.integers(1, n-2))
                b = draw(st.integers(a+1, min(n-1, a+5)))
                ops.append([kind, a, b])
            else:
                ops.append([kind])
        ops.append(['remove_jumps'])
        return {'seq': seq, 'flips': flips, 'ops': ops}
    return build()


def eval_history(case, ctx):
    """One QuaternionArray lives through a generated list of operations: in-place sign flips of row blocks (Q[a:b] *= -1),
    rows set to NaN, slerp_nan in place or not, remove_jumps.  Invariants: every finite row stays +- the row of the model (the
    rotations never change; gap rows filled by slerp_nan become part of the model), and right after EVERY remove_jumps all
    consecutive finite rows have a positive dot product -- whatever was done to the object before."""
    from ahrs import QuaternionArray
    seq = _seq(case)
    n = len(seq)
    data = seq*np.array(case['flips'], dtype=float)[:, None]
    ok, Q = ctx.call('QuaternionArray', lambda: QuaternionArray(np.array(data)))
    if not ok:
        return
    model = np.array(seq)                      # rotation of each row, up to sign; NaN rows where the object holds NaN
    calls = 0
    for step, op in enumerate(case['ops']):
        kind = op[0]
        ctx.label(f'op={kind}')
        if kind == 'flip':
            Q[op[1]:op[2]] *= -1.0
        elif kind == 'nan':
            Q[op[1]:op[2]] = np.nan
            model[op[1]:op[2]] = np.nan
        elif kind == 'remove_jumps':
            ok, _ = ctx.call('remove_jumps', lambda: Q.remove_jumps())
            if not ok:
                return
            calls += 1
            if calls >= 2:
                ctx.label('remove_jumps_again_on_same_object')
            A = np.array(np.asarray(Q.array), dtype=float)
            fin = np.all(np.isfinite(A), axis=1)
            for k in range(n-1):
                if fin[k] and fin[k+1] and float(np.dot(A[k], A[k+1])) <= 0:
                    ctx.fail('jump_left_after_remove_jumps', f'rows {k},{k+1} after step {step} of {[o[0] for o in case["ops"]]}')
                    return
        else:
            inplace = kind == 'slerp_nan_inplace'
            before = np.array(np.asarray(Q.array), dtype=float)
            ok, out = ctx.call('slerp_nan', lambda: Q.slerp_nan(inplace=inplace))
            if not ok:
                return
            if inplace:
                filled = np.array(np.asarray(Q.array), dtype=float)
                gaps = np.isnan(model).any(axis=1)
                if np.any(np.isnan(filled)):
                    ctx.fail('slerp_nan_left_nan', f'step {step}')
                    return
                model[gaps] = filled[gaps]          # judged on the arc by the nan_fill sub-check; here they join the model
            else:
                after = np.array(np.asarray(Q.array), dtype=float)
                if not np.array_equal(after, before, equal_nan=True):
                    ctx.fail('slerp_nan_copy_changed_the_object', f'step {step}')
                    return
        A = np.array(np.asarray(Q.array), dtype=float)
        for k in range(n):
            if np.isnan(model[k]).any():
                continue
            if not np.all(np.isfinite(A[k])) or min(_maxabs(A[k], model[k]), _maxabs(A[k], -model[k])) > 1e-12:
                ctx.fail('row_is_no_longer_the_same_rotation', f'row {k} after step {step} ({kind})')
                return
    ctx.nt(calls >= 2)


def selftest():
    oracle.selftest()
    # numeric justification of the LERP-branch speed bound Omega^3/32 (max deviation measured ~0.0160*Omega^3)
    Om = 0.0316
    worst = max(abs(math.atan2(t*math.sin(Om), 1 - t + t*math.cos(Om)) - t*Om) for t in np.linspace(0, 1, 201))
    assert worst < Om**3/32


SUBCHECKS = {
    'slerp': Sub(lambda tier: _slerp_case(), eval_slerp, quick=30000, thorough=500000),
    'nan_fill': Sub(lambda tier: _nan_case(), eval_nan, quick=12000, thorough=200000),
    'jumps': Sub(lambda tier: _jump_case(), eval_jumps, quick=12000, thorough=200000),
    'history': Sub(lambda tier: _history_case(), eval_history, quick=8000, thorough=200000),
}
