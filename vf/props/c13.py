"""C13 — a dropped-out sensor sample never corrupts a recursive filter (fault injection)."""
from __future__ import annotations

import math
import numpy as np
from hypothesis import strategies as st

from vf.core import Sub
from vf import gen, oracle, filters as F
from vf.props.c03 import specs, N_SPECS

PROPERTY = 'C13'
LEVEL = 'fault_enumeration'
LEVEL_TEXT = ('Generated fault injection: dropout windows (positions, lengths, sensor subsets) are drawn by Hypothesis over a '
              'physically consistent trajectory and every recursive filter; each faulty run is judged against the clean run of the '
              'same filter. No counter-example among the schedules counted in the evidence; not exhaustive.')
RULE = ('A physically consistent trajectory (own closed-form integration of a smooth band-limited body rate <= 0.2 rad/s, 300-700 '
        'samples at 100 Hz, from a PRNG seeded by a Hypothesis-drawn integer) is rendered in each filter\'s own convention '
        '(reference vectors of the shared filter table, exact images, gyroscope = true body rate). A fault schedule of 1-3 '
        'windows (start, length 1..30, or 31..200 when the gyroscope keeps running; non-empty subset of {acc, mag, gyr} zeroed; half of the schedules repeat one sensor set) is injected. Filters: Madgwick, Mahony, EKF '
        '(NED/ENU), UKF, AQUA, Fourati, ROLEQ, FKF, Complementary x IMU/MARG, default parameters and non-default presets; for Mahony (the filter that estimates one) three cases in four add a constant gyroscope bias up to 0.05 rad/s per axis, given to the filter as b0 or left for it to learn. Oracle: either the run is refused '
        'with ValueError, or all N rows are finite unit quaternions (1e-9) and, from W_f samples after the last window, the '
        'geodesic distance (IMU variants: tilt distance) to the clean run of the same filter stays below rho_f (constants calibrated on the unchanged '
        'tree, DESIGN.md section 3/C13). Non-trivial: a window that starts after sample 20, ends at least W_f before the end and '
        'zeroes a sensor the architecture uses; distinct = case hash. The faulty history is also fed sample by sample through the update method (up to the end of the last window): each step raises ValueError or returns a finite unit quaternion. Responsiveness probe: that streamed object and a second one streamed through the clean history get the same 0.15 rad kick after the last window and the same valid samples from there on; W_f samples later they are within rho_f of each other. ROLEQ presets include a null weight for either sensor (then the recovery clause is applied to outages with a running gyroscope only).')
ASSUMPTIONS = ['recovery horizon W_f and tolerance rho_f per filter (and per class of zeroed sensors: gyroscope too / accelerometer / magnetometer only) are calibrated constants (>= 3x margin over the worst observed in 24000 schedules; Mahony-MARG with a magnetometer-only outage additionally by what the filter knows of the gyroscope bias)',
               'a filter that corrects at a bounded rate (Madgwick: beta rad/s) is given the time that rate needs for the worst frozen-gyro error']
REQUIRED_LABELS = ['dropout:probe', 'dropout:streamed', 'dropout:long_window', 'dropout:gyro_bias=known', 'dropout:gyro_bias=unknown', 'dropout:sensor=acc', 'dropout:sensor=mag', 'dropout:sensor=gyr', 'dropout:windows>=2', 'dropout:params=custom']

DT = 0.01
KICK = 0.15          # rad, responsiveness probe
# (W_f samples after the last window, rho_f rad) -- calibrated, see DESIGN.md
RECOVERY = {
    # key: (W_f, tolerance by class of the zeroed sensors: 'gyr' = a gyroscope sample was zeroed too, 'acc' = accelerometer (and maybe
    # magnetometer) only, 'mag' = magnetometer only).  In comments: the worst distances observed on the unchanged tree over 16 seeds x
    # 1500 schedules (tools/calibrate_c13.py), windows up to 200 samples; every tolerance keeps >= 3x margin.
    'Madgwick-IMU': (300, {'gyr': 2.5e-2, 'acc': 2.5e-2}),                    # limit cycle of the normalised gradient step; scaled with the gain below
    'Madgwick-MARG': (300, {'gyr': 2.5e-2, 'acc': 2.5e-2, 'mag': 2.5e-2}),
    'Mahony-IMU': (300, {'gyr': 5e-2, 'acc': 5e-2}),                          # 6.4e-3 / 6.7e-3 (a null accelerometer freezes the whole update)
    'Mahony-MARG': (300, {'gyr': 1e-1, 'acc': 5e-2, 'mag': 3e-2}),            # 2.3e-2 / 1.3e-2 / 5.7e-3; 'mag' depends on the bias class, see rho()
    'EKF-IMU': (300, {'gyr': 6e-2, 'acc': 6e-2}), 'EKF-MARG': (300, {'gyr': 1e-1, 'acc': 1e-1, 'mag': 1e-1}),   # 1.2e-2 / 1.2e-2;  1.4e-2 / 2.4e-2
    'UKF-IMU': (300, {'gyr': 5e-2, 'acc': 5e-2}),                             # 1.8e-3 (an all-zero accelerometer sample is refused)
    'AQUA-IMU': (300, {'gyr': 3e-2, 'acc': 1e-7}),                            # 8.2e-3 / 4.1e-10
    'AQUA-MARG': (300, {'gyr': 2e-1, 'acc': 1e-7, 'mag': 1e-7}),              # 4.4e-2 / 1.3e-9 / 5.9e-10
    'Fourati-MARG': (300, {'gyr': 6e-1, 'acc': 6e-1, 'mag': 6e-1}),           # 1.7e-1 (its correction is proportional to the measured rate)
    'ROLEQ-MARG': (300, {'gyr': 1e-3, 'acc': 1e-9, 'mag': 1e-9}),             # 2.0e-5 (42 frozen samples, weights preset; 5.1e-7 with windows <= 30) / 1.7e-15 / 4.2e-15
    'FKF-MARG': (300, {'gyr': 1e-1, 'acc': 1e-1, 'mag': 1e-1}),               # 2.2e-2
    'Complementary-IMU': (300, {'gyr': 1e-9, 'acc': 1e-9}),                   # 1e-15 plus gain**W_f (added below)
    'Complementary-MARG': (300, {'gyr': 1e-9, 'acc': 1e-9, 'mag': 1e-9}),
}
# Mahony-MARG, magnetometer-only outage (the update falls back to the IMU law, the gyroscope keeps propagating), by what the filter
# knows about the constant gyroscope bias; worst of 300+ schedules per class on the unchanged tree in comments
MAHONY_MAG = {'none': 3e-2, 'known': 2e-3, 'unknown': 1.5e-1}                 # 5.7e-3 / 2.8e-4 / 2.9e-2


def rho(key, sensors, bias_cls):
    cls = 'gyr' if 'gyr' in sensors else 'acc' if 'acc' in sensors else 'mag'
    W_f, table = RECOVERY[key]
    if key == 'Mahony-MARG' and cls == 'mag':
        return W_f, MAHONY_MAG[bias_cls], cls
    return W_f, table.get(cls, table['gyr']), cls



# non-default settings that are at least as fast as the defaults (so that the calibrated recovery table still applies)
PRESETS = {
    'Madgwick': [{}, {'gain': 0.1}, {'gain_imu': 0.2, 'gain_marg': 0.2}, {'gain': 0.5}],
    'Mahony': [{}, {'k_P': 2.0, 'k_I': 0.1}, {'k_P': 1.5, 'k_I': 0.3}, {'b0': [0.01, -0.01, 0.005]}],
    'EKF': [{}, {'noises': [0.5, 0.2, 0.3]}, {'var_acc': 0.1}],
    'UKF': [{}],
    'AQUA': [{}, {'adaptive': True}, {'alpha': 0.05, 'beta': 0.05}, {'threshold': 0.95}],
    'Fourati': [{}, {'gain': 0.3}],
    'ROLEQ': [{}, {'weights': [1.0, 0.5]}, {'weights': [0.4, 1.6]}, {'weights': [1.0, 0.0]}, {'weights': [0.0, 1.0]}],   # a null weight is accepted by the validation
    'FKF': [{}],
    'Complementary': [{}, {'gain': 0.95}, {'gain': 0.8}],
}


def trajectory(seed, n):
    """Smooth attitude trajectory and the body rates that generate it exactly (closed-form steps)."""
    rs = np.random.RandomState(seed)
    q = rs.randn(4)
    q /= np.linalg.norm(q)
    # band-limited rate: sum of three slow sinusoids per axis, amplitude <= 0.2 rad/s in total
    amp = rs.uniform(0.01, 0.066, (3, 3))
    frq = rs.uniform(0.05, 0.5, (3, 3))
    pha = rs.uniform(0, 2*math.pi, (3, 3))
    off = rs.uniform(-0.02, 0.02, 3)
    t = np.arange(n)*DT
    W = off[None, :] + np.sum(amp[None, :, :]*np.sin(2*math.pi*frq[None, :, :]*t[:, None, None] + pha[None, :, :]), axis=2)
    W[np.linalg.norm(W, axis=1) == 0] = [1e-3, 0, 0]
    Q = [q]
    for k in range(1, n):
        q = oracle.step_exact_body(q, W[k], DT)      # the rate of sample k carries k-1 -> k (batch convention)
        q /= np.linalg.norm(q)
        Q.append(q)
    return np.array(Q), W


def render(spec, Q, W, frame, dip):
    a_ref = spec.a_ref(frame)*9.81
    m_ref = spec.m_ref(frame, dip)*50.0 if spec.m_ref is not None else np.array([1.0, 0.0, 0.0])
    acc = np.array([oracle.q2R(q).T @ a_ref for q in Q])
    mag = np.array([oracle.q2R(q).T @ m_ref for q in Q])
    return W.copy(), acc, mag


def _case(tier):
    recursive = [i for i in range(N_SPECS) if True]

    @st.composite
    def build(draw):
        i = draw(st.sampled_from(recursive))
        n = draw(st.integers(300, 700))
        nw = draw(st.integers(1, 3))
        windows = []
        for _ in range(nw):
            start = draw(st.one_of(st.integers(1, n-2), st.integers(21, max(22, n-450))))
            length = draw(st.integers(1, 30))
            sensors = draw(st.sampled_from([['acc'], ['mag'], ['gyr'], ['acc', 'mag'], ['acc', 'gyr'], ['mag', 'gyr'], ['acc', 'mag', 'gyr'], ['acc'], ['mag']]))
            if 'gyr' not in sensors and draw(st.integers(0, 3)) == 0:
                length = draw(st.integers(31, 200))      # long outage of a correcting sensor (the gyroscope keeps propagating)
                start = min(start, max(1, n - 300 - length - 1))
            if draw(st.integers(0, 7)) == 0:
                start = max(1, n - length)               # an outage that lasts to the end of the record (the last row is a dropped one)
            windows.append({'start': start, 'length': length, 'sensors': sensors})
        # constant gyroscope bias (only rendered for the filter that estimates one: Mahony), known to the user (b0) or not
        bias = draw(st.lists(gen.fl(-0.05, 0.05), min_size=3, max_size=3)) if draw(st.integers(0, 3)) else None
        if draw(st.booleans()):
            for w in windows[1:]:
                w['sensors'] = list(windows[0]['sensors'])       # the same fault recurring
        return {'spec': i, 'preset': draw(st.integers(0, 59)), 'seed': draw(st.integers(0, 2**31-1)), 'n': n, 'windows': windows,
                'gyr_bias': bias, 'bias_known': draw(st.integers(0, 2)) > 0,
                'frame': draw(st.sampled_from(['NED', 'ENU'])), 'dip': draw(gen.fl(-70.0, 70.0)), 'np_seed': draw(st.integers(0, 2**31-1))}
    return build()


def run(spec, gyr, acc, mag, frame, dip, seed, q_true0=None, preset=None):
    np.random.seed(seed)
    q0 = None
    if q_true0 is not None and spec.q0 == 'q0':
        # start from the true attitude where the filter honours q0 (its own convention), so that the comparison does not
        # depend on how each constructor initialises itself
        q0 = np.array(q_true0) if spec.direction == 'inv' else oracle.qconj(q_true0)
    obj = spec.build(gyr, acc, mag, frame, dip, dict(F.revive_params(preset or {}), Dt=DT), q0)
    return np.array(np.asarray(spec.Q(obj)), dtype=float)


def evaluate(case, ctx, calibrate=None):
    spec = specs()[int(case['spec'])]
    key = F.spec_key(spec)
    if key not in RECOVERY:
        ctx.label('not_a_corrective_filter')
        return
    W_f = RECOVERY[key][0]
    frame = case['frame'] if case['frame'] in spec.frames else spec.frames[0]
    dip = float(case['dip'])
    n = int(case['n'])
    Qt, Wt = trajectory(int(case['seed']), n)
    gyr, acc, mag = render(spec, Qt, Wt, frame, dip)
    bias = case.get('gyr_bias') if spec.name == 'Mahony' else None
    if bias is not None:
        gyr = gyr + np.array(bias, dtype=float)[None, :]
        ctx.label('gyro_bias=known' if case.get('bias_known') else 'gyro_bias=unknown')
    fg, fa, fm = gyr.copy(), acc.copy(), mag.copy()
    last_end, used, nontriv = 0, False, False
    uses = {'acc': True, 'gyr': True, 'mag': spec.arch == 'MARG'}
    for w in case['windows']:
        if spec.name == 'UKF' and 'gyr' in w['sensors'] and int(w['length']) > 30:
            # UKF's correction does not pull a large error back (C05's open finding): it keeps the 30-sample limit for frozen gyroscopes
            w = dict(w, length=30)
            ctx.label('ukf_gyr_window_capped_at_30')
        s, e = int(w['start']), min(int(w['start']) + int(w['length']), n)
        for sn in w['sensors']:
            {'acc': fa, 'mag': fm, 'gyr': fg}[sn][s:e] = 0.0
            ctx.label(f'sensor={sn}')
            if uses[sn]:
                used = True
                if s > 20 and e + W_f <= n:
                    nontriv = True
        last_end = max(last_end, e)
    if len(case['windows']) >= 2:
        ctx.label('windows>=2')
    ctx.label(f'filter={key}')
    ctx.nt(nontriv)
    seed = int(case['np_seed'])
    stream_status, stream_q, stream_k, sstep = None, None, 0, None
    bias_cls = 'none' if bias is None else 'known' if case.get('bias_known') else 'unknown'
    W_f, rho_f, sensor_cls = rho(key, {sn for w in case['windows'] for sn in w['sensors'] if uses[sn]}, bias_cls)
    ctx.label(f'class={sensor_cls}')
    presets = PRESETS[spec.name]
    preset = presets[int(case.get('preset', 0)) % len(presets)]
    if bias is not None and case.get('bias_known'):
        preset = dict(preset, b0=[float(b) for b in bias])
    ctx.label('params=default' if not preset else 'params=custom')
    if any(int(w['length']) > 30 for w in case['windows']):
        ctx.label('long_window')
    if spec.name == 'Complementary':
        # linear blend with gain g: a disturbance of at most 0.2 rad decays like g**k
        rho_f = rho_f + 0.2*float(preset.get('gain', 0.9))**W_f
    if spec.name == 'Madgwick' and preset:
        # two runs of the fixed-length gradient step chatter independently with amplitude ~ beta*dt each
        beta = max(v for k_, v in preset.items() if k_.startswith('gain'))
        rho_f = max(rho_f, 12.0*beta*DT)
    if spec.name == 'ROLEQ' and 0.0 in [float(v) for v in preset.get('weights', [1.0])] and sensor_cls == 'gyr':
        # one observation vector left: the rotation about it that a frozen gyroscope leaves behind is unobservable for good
        # (as the heading is for the IMU variants); the run is judged for finiteness and unit norm only
        rho_f = math.inf
        ctx.label('roleq_single_vector_frozen_gyro_unobservable')
    tag = key + (f'[{frame}]' if len(spec.frames) > 1 else '')
    which = '+'.join(sorted({sn for w in case['windows'] for sn in w['sensors'] if uses[sn]})) or 'unused'
    try:
        clean = run(spec, gyr, acc, mag, frame, dip, seed, Qt[0], preset)
    except Exception as e:
        ctx.label('clean_run_raises')       # C03's business
        return
    if clean.shape != (n, 4) or not np.all(np.isfinite(clean)):
        ctx.label('clean_run_invalid')
        return
    # the same faulty history sample by sample through the filter's update method: a refusal has to come from the dropped sample
    # itself (in the batch run a NaN produced AT the dropout surfaces as a ValueError about the NEXT, valid sample and would
    # pass for a refusal), so every step either raises ValueError -- the run ends there -- or returns a finite unit quaternion
    if spec.stream is not None and used:
        try:
            sobj, sstep = spec.stream(frame, dip, dict(F.revive_params(preset or {}), Dt=DT))
        except Exception as e:
            sobj = None
        if sobj is not None:
            ctx.label('streamed')
            stream_status = 'completed'
            q = np.array(clean[0], dtype=float)
            dropped = np.zeros(n, dtype=bool)
            for w in case['windows']:
                dropped[int(w['start']):min(int(w['start']) + int(w['length']), n)] = True
            for k in range(1, min(n, last_end + 3)):
                stream_k = k
                try:
                    q = np.array(np.asarray(sstep(q, fg[k], fa[k], fm[k])), dtype=float)
                    stream_q, stream_k = q, k + 1
                except ValueError:
                    ctx.label('stream_refused_with_ValueError')
                    stream_status = 'refused'
                    break
                except Exception as e:
                    ctx.fail(f'{tag}|stream|exception|{type(e).__name__}|{which}', f'sample {k}: {type(e).__name__}: {e}'[:200])
                    stream_status = 'failed'
                    break
                if q.shape != (4,) or not np.all(np.isfinite(q)):
                    ctx.fail(f'{tag}|stream|nonfinite|{which}', f'update returned {q.tolist()} at sample {k} (dropped: {bool(dropped[k])}) windows {case["windows"]}')
                    stream_status = 'failed'
                    break
                if abs(float(np.linalg.norm(q)) - 1.0) > 1e-9:
                    ctx.fail(f'{tag}|stream|nonunit|{which}', f'|q| = {float(np.linalg.norm(q))!r} at sample {k} (dropped: {bool(dropped[k])})')
                    stream_status = 'failed'
                    break
    try:
        faulty = run(spec, fg, fa, fm, frame, dip, seed, Qt[0], preset)
    except ValueError as e:
        ctx.label('refused_with_ValueError')
        if stream_status == 'completed':
            # ... unless the update method, fed the rest of the history as well, ends up refusing a later sample too (then both
            # paths refuse, consistently, whatever one thinks of the reason)
            try:
                for k in range(stream_k, n):
                    stream_q = np.array(np.asarray(sstep(stream_q, fg[k], fa[k], fm[k])), dtype=float)
                    if not np.all(np.isfinite(stream_q)):
                        break
            except ValueError:
                ctx.label('both_paths_refuse_a_later_sample')
                return
            except Exception:
                return
            # The filter's own update method takes every sample of this history, dropped ones included, and answers with valid
            # attitudes: it skips.  A ValueError from the batch run of the same filter is then not a refusal of the dropped sample
            # (typically: a NaN made at the dropout is rejected when the NEXT, valid sample is processed).
            ctx.fail(f'{tag}|batch_raises_ValueError_but_update_accepts_every_sample|{which}', f'{e}'[:200] + f' windows {case["windows"]}')
        return
    except Exception as e:
        ctx.fail(f'{tag}|exception|{type(e).__name__}|{which}', f'{type(e).__name__}: {e}'[:200])
        return
    if faulty.shape != (n, 4):
        ctx.fail(f'{tag}|shape|{which}', f'{faulty.shape}')
        return
    bad = ~np.all(np.isfinite(faulty), axis=1)
    if bad.any():
        ctx.fail(f'{tag}|nonfinite|{which}', f'{int(bad.sum())} rows from sample {int(np.argmax(bad))} (windows {case["windows"]})')
        return
    e = np.abs(np.linalg.norm(faulty, axis=1) - 1.0)
    if float(e.max()) > 1e-9:
        ctx.fail(f'{tag}|nonunit|{which}', f'row {int(np.argmax(e))}: norm off by {e.max():.3e}')
        return
    t0 = last_end + W_f
    # the recovery clause presupposes a filter whose clean run follows the trajectory at all (convergence is C05's
    # business): when the clean run is itself more than 0.1 rad from the truth the comparison is skipped and counted
    q_ref = Qt if spec.direction == 'inv' else np.array([oracle.qconj(q) for q in Qt])
    clean_err = max(F.attitude_error(spec, clean[t], q_ref[t], frame) for t in (n//2, n-1))
    if clean_err > 0.1:
        ctx.label('clean_run_not_tracking')
        ctx.exclude(f'{key}: clean run does not track the trajectory (C05)')
        return
    if t0 < n:
        # IMU variants cannot observe heading: a yaw offset picked up while the gyroscope (or the whole update) was
        # frozen can never be corrected, so they are compared on the tilt (images of the gravity reference) only
        d = np.array([F.attitude_error(spec, faulty[t], clean[t], frame) for t in range(t0, n)])
        worst = float(d.max())
        if calibrate is not None:
            calibrate.append((key, sensor_cls + '|bias_' + bias_cls, worst, rho_f))
        ctx.target(worst/rho_f, 'recovery')
        if worst > rho_f:
            ctx.fail(f'{tag}|does_not_return_to_clean_run|{which}',
                     f'{worst:.3e} rad from the clean run {W_f}+ samples after the last dropout (tolerance {rho_f}) windows {case["windows"]}')
    # Responsiveness probe (metamorphic): "keeps its state" also means the filter still corrects afterwards.  The object that was
    # streamed through the faulty history and a second object streamed through the clean history get the same kick (the
    # quaternion handed to the next update is rotated by KICK rad about a drawn axis) right after the last window and are then fed
    # the same valid samples: both have to pull the same error back, so W_f samples later they are as close as the batch runs are
    # required to be.  A filter whose correction was switched off, or whose gain state was damaged, by the dropout stays behind.
    k0 = min(n, last_end + 3)
    if stream_status == 'completed' and sstep is not None and stream_k == k0 and k0 + W_f < n and nontriv:
        try:
            cobj, cstep = spec.stream(frame, dip, dict(F.revive_params(preset or {}), Dt=DT))
            qc = np.array(clean[0], dtype=float)
            for k in range(1, k0):
                qc = np.array(np.asarray(cstep(qc, gyr[k], acc[k], mag[k])), dtype=float)
            rs = np.random.RandomState(int(case['seed']) ^ 0x5bd1e995)
            ax = rs.randn(3)
            ax /= np.linalg.norm(ax)
            dq = np.concatenate([[math.cos(KICK/2)], math.sin(KICK/2)*ax])
            qf = oracle.qmul(np.array(stream_q, dtype=float), dq)
            qc = oracle.qmul(qc, dq)
            worst_p = 0.0
            for k in range(k0, n):
                qf = np.array(np.asarray(sstep(qf, gyr[k], acc[k], mag[k])), dtype=float)
                qc = np.array(np.asarray(cstep(qc, gyr[k], acc[k], mag[k])), dtype=float)
                if k >= k0 + W_f:
                    worst_p = max(worst_p, F.attitude_error(spec, qf, qc, frame))
        except Exception as e:
            ctx.label('probe_skipped_' + type(e).__name__)
            return
        ctx.label('probe')
        if not (np.all(np.isfinite(qf)) and np.all(np.isfinite(qc))):
            ctx.label('probe_nonfinite')
            return
        if calibrate is not None:
            calibrate.append((key + '/probe', sensor_cls + '|bias_' + bias_cls, worst_p, rho_f))
        if worst_p > rho_f:
            ctx.fail(f'{tag}|kicked_after_dropout_does_not_follow_the_kicked_clean_filter|{which}',
                     f'{worst_p:.3e} rad between the two kicked filters {W_f}+ samples after the kick (tolerance {rho_f}) windows {case["windows"]}')


def selftest():
    oracle.selftest()
    Q, W = trajectory(1, 50)
    # the rendered gyroscope reproduces the trajectory exactly
    q = Q[0]
    for k in range(1, 50):
        q = oracle.step_exact_body(q, W[k], DT)
    assert oracle.qangle(q, Q[-1]) < 1e-12


SUBCHECKS = {'dropout': Sub(_case, lambda c, ctx: evaluate(c, ctx), quick=6000, thorough=120000, budget_quick=100.0)}
