"""C14 — WMM output equals the spherical-harmonic synthesis of the shipped coefficients."""
from __future__ import annotations

import math
import numpy as np
from hypothesis import strategies as st

from vf.core import Sub, REPO
from vf import gen, wmm_oracle

PROPERTY = 'C14'
LEVEL = 'exploration'
RULE = ('Queries (lat, lon, h, date): lat uniform in [-90,90] plus 90-10**U(-9,-1) of either sign plus exact +-90 and 0; lon '
        'in [-180,180] incl. 0, +-180; h in [-1,850] km; date = 2015 + k/10, k in 0..150, with the epoch boundaries 2019.9 / '
        '2020.0 / 2024.9 / 2025.0 / 2030.0 over-weighted. Each query is asked through WMM().magnetic_field(..., date=float) on an '
        'object that has already answered 0-3 other queries (other places and dates, usually from another coefficient file; one in three at the station of the query itself, at another height) and through the constructor. Oracle: own degree-12 Schmidt semi-normalised synthesis (explicit Legendre '
        'polynomials with exact rational coefficients, own COF parser, own geodetic->geocentric conversion), X,Y,Z within 1e-7 + '
        '2.8e5*min(1.5e-8, 2.2e-16/colatitude) nT, and the coefficient file / epoch used must be the one of the date\'s lustrum. '
        'Non-trivial: |lat| < 89.9, h != 0, date not an epoch start; distinct = case hash.')
ASSUMPTIONS = ['the oracle reproduces the official WMM2020 test values to 0.05 nT (self-test at start-up)',
               'near the poles the package computes the geocentric latitude with arcsin(z/r): tolerance term 2.8e5*2.2e-16/colat nT']
REQUIRED_LABELS = ['field:history_same_site', 'field:history_crosses_models', 'field:lat=pole', 'field:lat=near_pole', 'field:lat=equator', 'field:model=WMM2015', 'field:model=WMM2020',
                   'field:model=WMM2025', 'field:date=boundary']


def lat_strategy():
    return st.one_of(
        st.tuples(st.just('generic'), gen.fl(-89.9, 89.9)), st.tuples(st.just('generic'), gen.fl(-89.9, 89.9)),
        st.tuples(st.just('equator'), st.just(0.0)),
        st.tuples(st.just('pole'), st.sampled_from([90.0, -90.0])),
        st.tuples(st.just('near_pole'), st.tuples(gen.signs(), gen.log_uniform(-9, -1)).map(lambda t: t[0]*(90.0 - t[1]))))


def lon_strategy():
    return st.one_of(gen.fl(-180.0, 180.0), st.sampled_from([0.0, 180.0, -180.0, 90.0, -90.0]))


def date_strategy():
    return st.one_of(st.integers(0, 150), st.integers(0, 150), st.sampled_from([49, 50, 99, 100, 150, 0, 51, 101]))


def _case():
    return st.fixed_dictionaries({'lat': lat_strategy(), 'lon': lon_strategy(),
                                  'h': st.one_of(gen.fl(-1.0, 850.0), st.sampled_from([0.0, -1.0, 850.0])),
                                  'k': date_strategy(),
                                  # earlier queries on the same object (other dates, hence possibly other coefficient files)
                                  'history': st.lists(date_strategy(), min_size=0, max_size=3)})


def tolerance(colat):
    return 1e-7 + 2.8e5*min(1.5e-8, 2.2e-16/max(colat, 1e-300))


def evaluate(case, ctx):
    from ahrs.utils.wmm import WMM
    cls, lat = case['lat']
    lat, lon, h = float(lat), float(case['lon']), float(case['h'])
    k = int(case['k'])
    date = 2015 + k/10
    (X, Y, Z), model, epoch, colat = wmm_oracle.synthesis(REPO, lat, lon, h, date)
    tol = tolerance(colat)
    ctx.label(f'lat={cls}', f'model={model}')
    if k in (49, 50, 99, 100, 150):
        ctx.label('date=boundary')
    ctx.nt(abs(lat) < 89.9 and h != 0.0 and k not in (0, 50, 100))

    def judge(name, w):
        try:
            got = np.array([float(w.X), float(w.Y), float(w.Z)])
        except Exception as e:
            ctx.fail(f'{name}|elements_missing|{cls}', f'{type(e).__name__}: X={w.X!r}')
            return
        if not np.all(np.isfinite(got)):
            ctx.fail(f'{name}|nonfinite|{cls}', f'{got.tolist()} at ({lat!r},{lon!r},{h!r},{date!r})')
            return
        err = float(np.max(np.abs(got - np.array([X, Y, Z]))))
        ctx.target(err/tol, 'field_err')
        if err > tol:
            ctx.fail(f'{name}|field_mismatch|{cls}|{model}', f'({lat!r},{lon!r},{h!r},{date!r}): got {got.tolist()} expected {[X, Y, Z]} err {err:.3e} nT tol {tol:.1e}')
        if str(w.wmm_filename) != f'{model}/WMM.COF' or float(w.epoch) != float(epoch):
            ctx.fail(f'{name}|wrong_model|{model}', f'date {date!r}: used {w.wmm_filename} epoch {w.epoch}')

    ok, w = ctx.call('WMM()', lambda: WMM())
    if ok:
        hist = [int(x) for x in case.get('history', [])]
        if hist:
            ctx.label('object_with_history')
            if len({min(x, 149)//50 for x in hist + [k]}) > 1:
                ctx.label('history_crosses_models')
        for j, kj in enumerate(hist):
            if kj % 3 == 0:
                # an altitude profile over the station of the query: same latitude and longitude, another height (and the
                # query's own date for every other such entry) -- whatever the object keeps per site must not outlive the height
                ctx.label('history_same_site')
                hj = (h + 97.0*(j + 1)) % 851.0
                ctx.call('magnetic_field[history]', lambda: w.magnetic_field(lat, lon, hj, date=date if kj % 2 else 2015 + kj/10))
            else:
                ctx.call('magnetic_field[history]', lambda: w.magnetic_field(-lat/2 + j, lon/3, 10.0*j, date=2015 + kj/10))
        ok, _ = ctx.call(f'magnetic_field|{cls}', lambda: w.magnetic_field(lat, lon, h, date=date))
        if ok:
            judge('magnetic_field', w)
    if lat != 0.0 and lon != 0.0:       # lat/lon == 0 through the constructor is C15's business
        ok, w2 = ctx.call(f'WMM(date,...)|{cls}', lambda: WMM(date, lat, lon, h))
        if ok:
            judge('constructor', w2)


def selftest():
    wmm_oracle.selftest(REPO)


SUBCHECKS = {'field': Sub(lambda tier: _case(), evaluate, quick=30000, thorough=600000)}
