"""C15 — WMM answers depend only on (date, place, frame), not on call path or history."""
from __future__ import annotations

import datetime
import math
import numpy as np
from hypothesis import strategies as st

from vf.core import Sub, REPO
from vf import gen, wmm_oracle
from vf.props.c14 import lat_strategy, lon_strategy, tolerance

PROPERTY = 'C15'
LEVEL = 'exploration'
RULE = ('Model-based histories: a generated list of 1-12 operations is applied to ONE long-lived WMM object per frame (NED or '
        'ENU), exactly like a rule-based state machine (the list shrinks as one value and is the replay file). Operations: '
        'query through the method with a float date on the tenth-of-a-year grid or off it (next to the rounding boundaries of round(date,1), last days of a model period; fresh-object comparison only), an int year, or a datetime.date; query with the '
        'default date; query with date=None (re-uses the object\'s current date); reset_coefficients(date); reset_date(date); re-construct the object '
        'through the constructor (date, lat, lon, h, frame). After every query the elements are compared with (a) a fresh object '
        'asked the same single question (1e-9 nT) and (b) for float/int dates the independent spherical-harmonic oracle of C14; '
        'invariants on every answer: all eight elements finite, H=hypot(X,Y), F=hypot(H,Z), I=atan2(Z,H), D=atan2(Y,X), the ENU '
        'vector equals (Y,X,-Z) of the NED answer, longitudes +180/-180 agree to 1e-6 nT, latitude 0 and longitude 0 are answered. '
        'Non-trivial: >= 3 queries of which >= 1 changes the coefficient file; distinct = case hash.')
ASSUMPTIONS = ['the default-date query depends on the import-time date, identically for the long-lived and the fresh object',
               'datetime.date inputs are compared with a fresh object only (their decimal-year conversion is the package\'s definition)']
REQUIRED_LABELS = ['history:date=offgrid_float', 'history:reset_date_then_date_none', 'history:op=method_none', 'history:op=construct', 'history:epoch_change', 'history:lat0_or_lon0', 'history:frame=ENU']


def _place():
    return st.tuples(lat_strategy().map(lambda t: t[1]), lon_strategy(), st.one_of(gen.fl(-1.0, 850.0), st.just(0.0)))


def _date():
    return st.one_of(
        st.tuples(st.just('float'), st.integers(0, 150).map(lambda k: 2015 + k/10)),
        st.tuples(st.just('float'), st.sampled_from([2019.9, 2020.0, 2024.9, 2025.0, 2030.0, 2015.0])),
        # floats off the tenth-of-a-year grid (the model quantises time to round(date, 1)): next to the rounding boundaries, in the
        # last days of a coefficient file's period, anywhere; judged against a fresh object only
        st.tuples(st.just('float'), st.tuples(st.integers(0, 149), st.sampled_from([0.049, 0.0499, 0.0501, 0.051, 0.0999, 0.099, 0.001, 0.02, 0.08])).map(lambda t: 2015 + t[0]/10 + t[1])),
        st.tuples(st.just('float'), st.sampled_from([2019.999, 2024.999, 2019.951, 2024.949, 2029.999])),
        st.tuples(st.just('float'), gen.fl(2015.0, 2029.999)),
        st.tuples(st.just('int'), st.integers(2015, 2030)),
        st.tuples(st.just('date'), st.tuples(st.integers(2015, 2029), st.integers(1, 12), st.integers(1, 28))))


def _op():
    return st.one_of(
        st.tuples(st.just('method'), _place(), _date()),
        st.tuples(st.just('method'), _place(), _date()),
        st.tuples(st.just('method_default'), _place()),
        st.tuples(st.just('method_none'), _place()),
        st.tuples(st.just('reset'), _date()),
        st.tuples(st.just('reset_date'), _date()),      # public: "set date to use with the model ... the corresponding COF file is also set"
        st.tuples(st.just('construct'), _place(), _date()))


def _case():
    return st.fixed_dictionaries({'frame': st.sampled_from(['NED', 'ENU', 'ned', 'enu']),
                                  'init': _date(), 'ops': st.lists(_op(), min_size=1, max_size=12)})


def _on_grid(x):
    return abs(float(x)*10 - round(float(x)*10)) < 1e-6


def _mk_date(d):
    kind, v = d
    if kind == 'float':
        return float(v)
    if kind == 'int':
        return int(v)
    return datetime.date(int(v[0]), int(v[1]), int(v[2]))


def _elements(w):
    return {k: getattr(w, k) for k in ('X', 'Y', 'Z', 'H', 'F', 'I', 'D', 'GV')}


def evaluate(case, ctx):
    from ahrs.utils.wmm import WMM
    frame = case['frame']
    enu = frame.upper() == 'ENU'
    ctx.label(f'frame={frame.upper()}')
    ok, w = ctx.call('WMM(init)', lambda: WMM(_mk_date(case['init']), frame=frame))
    if not ok:
        return
    nq, files = 0, set()
    pending_reset_date = False
    for step, op in enumerate(case['ops']):
        kind = op[0]
        ctx.label(f'op={kind}')
        if kind == 'reset':
            okr, _ = ctx.call('reset_coefficients', lambda: w.reset_coefficients(_mk_date(op[1])))
            if not okr:
                return
            continue
        if kind == 'reset_date':
            okr, _ = ctx.call('reset_date', lambda: w.reset_date(_mk_date(op[1])))
            if not okr:
                return
            pending_reset_date = True
            continue
        lat, lon, h = (float(x) for x in op[1])
        if lat == 0.0 or lon == 0.0:
            ctx.label('lat0_or_lon0')
        route = kind
        if kind in ('method', 'construct') and not isinstance(_mk_date(op[2]), datetime.date) and not _on_grid(_mk_date(op[2])):
            ctx.label('date=offgrid_float')
        if kind == 'method':
            d = _mk_date(op[2])
            okq, _ = ctx.call('method', lambda: w.magnetic_field(lat, lon, h, date=d))
            fresh = lambda: _fresh_method(WMM, frame, lat, lon, h, ('date', d))
            oracle_date = float(d) if not isinstance(d, datetime.date) and _on_grid(d) else None
        elif kind == 'method_default':
            okq, _ = ctx.call('method_default', lambda: w.magnetic_field(lat, lon, h))
            fresh = lambda: _fresh_method(WMM, frame, lat, lon, h, ('default', None))
            oracle_date = None
        elif kind == 'method_none':
            cur = w.date             # the date the object currently holds (a datetime.date)
            cur_dec = float(w.date_dec)
            if pending_reset_date:
                ctx.label('reset_date_then_date_none')
                route = 'method_none_after_reset_date'
            okq, _ = ctx.call('method_none', lambda: w.magnetic_field(lat, lon, h, date=None))
            fresh = lambda: _fresh_method(WMM, frame, lat, lon, h, ('date', cur_dec))
            # off-grid dates (from datetime.date inputs) are judged against the fresh object only
            oracle_date = round(cur_dec, 1) if abs(cur_dec - round(cur_dec, 1)) < 1e-9 else None
        else:  # construct
            d = _mk_date(op[2])
            okq, w2 = ctx.call('construct', lambda: WMM(d, lat, lon, h, frame))
            if okq:
                w = w2
            fresh = lambda: _fresh_method(WMM, frame, lat, lon, h, ('date', d))
            oracle_date = float(d) if not isinstance(d, datetime.date) and _on_grid(d) else None
        pending_reset_date = False
        if not okq:
            return
        nq += 1
        files.add(str(w.wmm_filename))
        el = _elements(w)
        if any(v is None for v in el.values()):
            ctx.fail(f'{route}|elements_missing', f'step {step}: {el} for ({lat!r},{lon!r},{h!r})')
            continue
        vals = {k: float(v) for k, v in el.items()}
        if not all(math.isfinite(v) for v in vals.values()):
            ctx.fail(f'{route}|nonfinite', f'step {step}: {vals} for ({lat!r},{lon!r},{h!r})')
            continue
        X, Y, Z = vals['X'], vals['Y'], vals['Z']
        sc = max(1.0, vals['F'])
        if abs(vals['H'] - math.hypot(X, Y)) > 1e-12*sc or abs(vals['F'] - math.hypot(vals['H'], Z)) > 1e-12*sc:
            ctx.fail(f'{route}|H_F_inconsistent', f'step {step}: {vals}')
        if abs(vals['I'] - math.degrees(math.atan2(Z, vals['H']))) > 1e-9 or abs(vals['D'] - math.degrees(math.atan2(Y, X))) > 1e-9:
            ctx.fail(f'{route}|I_D_inconsistent', f'step {step}: {vals}')
        # (a) fresh object, same single question
        okf, fr = ctx.call('fresh', fresh)
        if okf:
            fv = {k: float(v) for k, v in _elements(fr).items()}
            err = max(abs(fv[k] - vals[k]) for k in ('X', 'Y', 'Z', 'H', 'F'))
            if err > 1e-9:
                ctx.fail(f'{route}|differs_from_fresh_object', f'step {step} of {[o[0] for o in case["ops"]]}: X,Y,Z={X!r},{Y!r},{Z!r} fresh={fv["X"]!r},{fv["Y"]!r},{fv["Z"]!r} at ({lat!r},{lon!r},{h!r})')
            if max(abs(fv[k] - vals[k]) for k in ('I', 'D')) > 1e-9:
                ctx.fail(f'{route}|angles_differ_from_fresh_object', f'step {step}')
        # (b) independent oracle (NED components)
        if oracle_date is not None and 2015.0 <= oracle_date <= 2030.0:
            (Xo, Yo, Zo), model, epoch, colat = wmm_oracle.synthesis(REPO, lat, lon, h, oracle_date)
            ned = (Y, X, -Z) if enu else (X, Y, Z)
            tol = tolerance(colat)
            err = max(abs(ned[0] - Xo), abs(ned[1] - Yo), abs(ned[2] - Zo))
            if err > tol:
                ctx.fail(f'{route}|differs_from_synthesis|{"ENU" if enu else "NED"}', f'step {step} of {[o[0] for o in case["ops"]]}: got(NED) {ned} expected {(Xo, Yo, Zo)} at ({lat!r},{lon!r},{h!r},{oracle_date!r})')
        # ENU twin and the +-180 meridian, from fresh objects asked once
        if kind == 'method' and not isinstance(d, datetime.date):
            other = 'NED' if enu else 'ENU'
            oko, wo = ctx.call('fresh', lambda: _fresh_method(WMM, other, lat, lon, h, ('date', d)))
            if oko:
                a = (X, Y, Z)
                b = (float(wo.X), float(wo.Y), float(wo.Z))
                if max(abs(a[0] - b[1]), abs(a[1] - b[0]), abs(a[2] + b[2])) > 1e-9:
                    ctx.fail('frames|ENU_is_not_swapped_NED', f'{frame}: {a} vs {other}: {b}')
            if abs(lon) == 180.0:
                oko, wo = ctx.call('fresh', lambda: _fresh_method(WMM, frame, lat, -lon, h, ('date', d)))
                if oko and max(abs(float(wo.X) - X), abs(float(wo.Y) - Y), abs(float(wo.Z) - Z)) > 1e-6:
                    ctx.fail('meridian|+180_differs_from_-180', f'{(X, Y, Z)} vs {(float(wo.X), float(wo.Y), float(wo.Z))}')
    if len(files) >= 2:
        ctx.label('epoch_change')
    ctx.nt(nq >= 3 and len(files) >= 2)


def _fresh_method(WMM, frame, lat, lon, h, how):
    w = WMM(frame=frame)
    if how[0] == 'default':
        w.magnetic_field(lat, lon, h)
    else:
        w.magnetic_field(lat, lon, h, date=how[1])
    return w


def selftest():
    wmm_oracle.selftest(REPO)


SUBCHECKS = {'history': Sub(lambda tier: _case(), evaluate, quick=4000, thorough=150000)}
