"""C16 — ellipsoid gravity model satisfies the closed-form level-ellipsoid identities."""
from __future__ import annotations

import math
import numpy as np
from hypothesis import strategies as st

from vf.core import Sub
from vf import gen, oracle

PROPERTY = 'C16'
LEVEL = 'exploration'
RULE = ('Reference ellipsoids (a in 10**U(5,8) m; f = 0 exactly or 10**U(-6, log10 0.2); GM in 10**U(9,18); rotation rate '
        'of either sign chosen so that m = w^2 a^2 b/GM is in 10**U(-8, log10 0.05)), latitude in [-90,90] incl. 0 and +-90, '
        'height in [0, 0.005 a]; plus the ten bodies of constants.py (Venus and Pluto have f = 0) and the WGS/ReferenceEllipsoid '
        'defaults. Oracle: b=a(1-f), e^2=2f-f^2, e\'^2=(a^2-b^2)/b^2, E=sqrt(a^2-b^2) (1e-12 rel); Pizzetti 2ge/a+gp/b = '
        '3GM/(a^2 b)-2w^2 (1e-9 rel); ge, gp equal an own power-series evaluation of the Heiskanen-Moritz closed forms '
        '(1e-9 + 2e-15 m/f^2 rel, the analytic size of the cancellation in the closed-form q0); normal_gravity positive, even in '
        'latitude bit-exactly, = ge at 0 and gp at +-90 (1e-12 rel), strictly decreasing with height; for f <= 1e-2, ge and gp '
        'within (4f + tol) GM/a^2 of the rotating-sphere values GM/a^2 (1-1.5m), GM/a^2 (1+m). Non-trivial: f outside '
        '[3.2e-3,3.5e-3] and m > 1e-6; distinct = case hash.')
ASSUMPTIONS = ['the power-series oracle is valid for second eccentricity < 1 (f <= 0.29); cross-checked against the closed forms in a self-test',
               'heights up to 0.5 % of a (range of the second-order height formula)']
REQUIRED_LABELS = ['ellipsoid:f=zero', 'ellipsoid:f=tiny', 'ellipsoid:f=large', 'bodies:VENUS', 'bodies:EARTH']

BODIES = ['EARTH', 'MOON', 'MERCURY', 'VENUS', 'MARS', 'JUPITER', 'SATURN', 'URANUS', 'NEPTUNE', 'PLUTO']


def _ell_case():
    f = st.one_of(st.tuples(st.just('zero'), st.just(0.0)),
                  st.tuples(st.just('tiny'), gen.log_uniform(-6, -4)),
                  st.tuples(st.just('small'), gen.log_uniform(-4, -2)),
                  st.tuples(st.just('large'), gen.fl(-2.0, math.log10(0.2)).map(lambda e: 10.0**e)),
                  st.tuples(st.just('earthlike'), gen.fl(3.2e-3, 3.5e-3)))
    lat = st.one_of(gen.fl(-90.0, 90.0), st.sampled_from([0.0, 90.0, -90.0, 45.0, -45.0]))
    return st.fixed_dictionaries({'a': gen.log_uniform(5, 8), 'f': f, 'GM': gen.log_uniform(9, 18),
                                  'm': gen.fl(-8.0, math.log10(0.05)).map(lambda e: 10.0**e), 'wsign': gen.signs(),
                                  'lat': lat, 'hfrac': st.one_of(gen.fl(0.0, 0.005), st.sampled_from([0.0, 0.005])),
                                  'hfrac2': gen.fl(0.0, 0.005)})


def _rel(x, ref):
    return abs(x - ref)/abs(ref) if ref != 0 else abs(x)


def check_ellipsoid(ctx, E, a, f, GM, w, lat, h1, h2, fcls, tag=''):
    b_ref = a*(1.0 - f)
    for name, got, ref in [('b', lambda: E.b, b_ref),
                           ('first_eccentricity_squared', lambda: E.first_eccentricity_squared, 2*f - f*f),
                           ('second_eccentricity_squared', lambda: E.second_eccentricity_squared, (a*a - b_ref*b_ref)/(b_ref*b_ref)),
                           ('linear_eccentricity', lambda: E.linear_eccentricity, math.sqrt(max(a*a - b_ref*b_ref, 0.0))),
                           ('aspect_ratio', lambda: E.aspect_ratio, 1.0 - f),
                           ('normal_gravity_constant', lambda: E.normal_gravity_constant, w*w*a*a*b_ref/GM)]:
        ok, v = ctx.call(name, got)
        if ok:
            v = float(v)
            # quantities that vanish with f are formed from a^2-b^2: absolute tolerance relative to their scale
            scale = {'linear_eccentricity': a, 'first_eccentricity_squared': 1.0, 'second_eccentricity_squared': 1.0}.get(name)
            bad = (abs(v - ref) > 1e-12*scale + 1e-12*abs(ref)) if scale else (_rel(v, ref) > 1e-12)
            if name == 'linear_eccentricity':
                bad = abs(v*v - (a*a - b_ref*b_ref)) > 1e-12*a*a
            if not math.isfinite(v) or bad:
                ctx.fail(f'{tag}{name}|mismatch|{fcls}', f'{v!r} vs {ref!r} (a={a!r}, f={f!r})')
    ge_ref, gp_ref, m = oracle.level_ellipsoid_gravity(a, f, GM, w)
    tolc = 1e-9 + (2e-15*m/(f*f) if f > 0 else 0.0)
    ok1, ge = ctx.call('equatorial_normal_gravity', lambda: float(E.equatorial_normal_gravity))
    ok2, gp = ctx.call('polar_normal_gravity', lambda: float(E.polar_normal_gravity))
    if not (ok1 and ok2):
        return
    if not (math.isfinite(ge) and math.isfinite(gp)):
        ctx.fail(f'{tag}gravity|nonfinite|{fcls}', f'ge={ge!r} gp={gp!r}')
        return
    sphere = GM/(a*a)
    # Pizzetti (isolates the m terms, holds whatever q0 is)
    lhs = 2*ge/a + gp/b_ref
    rhs = 3*GM/(a*a*b_ref) - 2*w*w
    if abs(lhs - rhs) > 1e-9*abs(3*GM/(a*a*b_ref)):
        ctx.fail(f'{tag}pizzetti|violated|{fcls}', f'lhs {lhs!r} rhs {rhs!r} (a={a!r} f={f!r} GM={GM!r} w={w!r} ge={ge!r} gp={gp!r})')
    for nm, g, ref in (('ge', ge, ge_ref), ('gp', gp, gp_ref)):
        if _rel(g, ref) > tolc:
            ctx.fail(f'{tag}{nm}|differs_from_series|{fcls}', f'{g!r} vs {ref!r} rel {_rel(g, ref):.3e} tol {tolc:.3e} (a={a!r} f={f!r} m={m!r})')
        ctx.target(_rel(g, ref)/tolc, 'g_err')
        if g <= 0:
            ctx.fail(f'{tag}{nm}|not_positive|{fcls}', f'{g!r}')
    if f <= 1e-2:
        for nm, g, ref in (('ge', ge, sphere*(1 - 1.5*m)), ('gp', gp, sphere*(1 + m))):
            if abs(g - ref) > (4*f + tolc)*sphere:
                ctx.fail(f'{tag}{nm}|far_from_rotating_sphere|{fcls}', f'{g!r} vs sphere value {ref!r} (f={f!r} m={m!r})')
    # Somigliana
    def ng(la, h=None):
        return float(E.normal_gravity(float(la)) if h is None else E.normal_gravity(float(la), float(h)))
    ok, g0 = ctx.call('normal_gravity', lambda: ng(lat))
    if not ok:
        return
    ok, gneg = ctx.call('normal_gravity', lambda: ng(-lat))
    if ok and gneg != g0:
        ctx.fail(f'{tag}normal_gravity|not_even_in_latitude|{fcls}', f'{g0!r} vs {gneg!r} at {lat!r}')
    if not (g0 > 0 and math.isfinite(g0)):
        ctx.fail(f'{tag}normal_gravity|not_positive|{fcls}', f'{g0!r} at lat {lat!r}')
        return
    ok, geq = ctx.call('normal_gravity', lambda: ng(0.0))
    if ok and _rel(geq, ge) > 1e-12:
        ctx.fail(f'{tag}normal_gravity|equator_not_ge|{fcls}', f'{geq!r} vs {ge!r}')
    for pole in (90.0, -90.0):
        ok, gpo = ctx.call('normal_gravity', lambda: ng(pole))
        if ok and _rel(gpo, gp) > 1e-12:
            ctx.fail(f'{tag}normal_gravity|pole_not_gp|{fcls}', f'{gpo!r} vs {gp!r}')
    hs = sorted({0.0, h1, h2, 0.005*a})
    vals = []
    for h in hs:
        ok, gh = ctx.call('normal_gravity[h]', lambda: ng(lat, h))
        if not ok:
            return
        vals.append(gh)
    for (ha, ga), (hb, gb) in zip(zip(hs, vals), zip(hs[1:], vals[1:])):
        if (hb - ha) > 1e-9*a and not gb < ga:
            ctx.fail(f'{tag}normal_gravity|not_decreasing_with_height|{fcls}', f'g({ha!r})={ga!r} g({hb!r})={gb!r} at lat {lat!r}')
        if not gb > 0:
            ctx.fail(f'{tag}normal_gravity|not_positive_at_height|{fcls}', f'{gb!r}')
    # first-order free-air gradient: g(h) ~ g(0) (1 - 2h(1+f+m-2f sin^2)/a + 3h^2/a^2) to 1e-12
    s2 = math.sin(math.radians(lat))**2
    ref = g0*(1 - 2*h1*(1 + f + m - 2*f*s2)/a + 3*h1*h1/(a*a))
    ok, gh1 = ctx.call('normal_gravity[h]', lambda: ng(lat, h1))
    if ok and h1 > 0 and _rel(gh1, ref) > 1e-12:
        ctx.fail(f'{tag}normal_gravity|height_formula|{fcls}', f'{gh1!r} vs {ref!r} at h={h1!r}')


def eval_ellipsoid(case, ctx):
    from ahrs.utils.geodesy import ReferenceEllipsoid
    from ahrs.utils.wgs84 import WGS
    a = float(case['a'])
    fcls, f = case['f']
    f = float(f)
    GM = float(case['GM'])
    m = float(case['m'])
    b = a*(1 - f)
    w = float(case['wsign'])*math.sqrt(m*GM/(a*a*b))
    lat = float(case['lat'])
    ctx.label(f'f={fcls}')
    ctx.nt(not (3.2e-3 <= f <= 3.5e-3) and m > 1e-6)
    for cname, cls in (('ReferenceEllipsoid', ReferenceEllipsoid), ('WGS', WGS)):
        ok, E = ctx.call(cname, lambda: cls(a, f, GM, w))
        if ok:
            check_ellipsoid(ctx, E, a, f, GM, w, lat, float(case['hfrac'])*a, float(case['hfrac2'])*a, fcls, tag='' if cname == 'ReferenceEllipsoid' else 'WGS.')


def _body_case():
    return st.fixed_dictionaries({'body': st.sampled_from(BODIES + ['WGS()', 'ReferenceEllipsoid()']),
                                  'lat': st.one_of(gen.fl(-90.0, 90.0), st.sampled_from([0.0, 90.0, -90.0])),
                                  'hfrac': gen.fl(0.0, 0.005), 'hfrac2': gen.fl(0.0, 0.005)})


def eval_body(case, ctx):
    from ahrs.common import constants as C
    from ahrs.utils.geodesy import ReferenceEllipsoid
    from ahrs.utils.wgs84 import WGS
    body = case['body']
    ctx.label(body)
    ctx.nt(body not in ('EARTH', 'WGS()'))
    if body == 'WGS()':
        ok, E = ctx.call('WGS()', lambda: WGS())
        a, f, GM, w = C.EARTH_EQUATOR_RADIUS, C.EARTH_FLATTENING, C.EARTH_GM, C.EARTH_ROTATION
    elif body == 'ReferenceEllipsoid()':
        ok, E = ctx.call('ReferenceEllipsoid()', lambda: ReferenceEllipsoid())
        a, f, GM, w = 1.0, 0.0, C.UNIVERSAL_GRAVITATION_CODATA2018*1.0, 1.0
        # the default unit ellipsoid spins far beyond break-up (m = 1.5e10): only the geometric identities are meaningful
        if ok:
            for name, ref in (('b', 1.0), ('first_eccentricity_squared', 0.0), ('linear_eccentricity', 0.0)):
                v = float(getattr(E, name))
                if v != ref:
                    ctx.fail(f'default.{name}', f'{v!r}')
        return
    else:
        a = float(getattr(C, f'{body}_EQUATOR_RADIUS'))
        bb = float(getattr(C, f'{body}_POLAR_RADIUS'))
        GM = float(getattr(C, f'{body}_GM'))
        w = float(getattr(C, f'{body}_ROTATION'))
        f = (a - bb)/a
        ok, E = ctx.call(f'ReferenceEllipsoid({body})', lambda: ReferenceEllipsoid(a, f, GM, w))
    if ok:
        fcls = 'zero' if f == 0 else 'body'
        check_ellipsoid(ctx, E, float(a), float(f), float(GM), float(w), float(case['lat']), float(case['hfrac'])*a, float(case['hfrac2'])*a, fcls, tag=f'{body}.')
        if f == 0:
            ok, g = ctx.call('normal_gravity', lambda: float(E.normal_gravity(float(case['lat']))))
            if ok and abs(g - GM/(a*a)) > 0.05*GM/(a*a):
                ctx.fail(f'{body}.normal_gravity|far_from_GM/a^2', f'{g!r} vs {GM/(a*a)!r}')


def selftest():
    oracle.selftest()
    # series vs closed forms where the closed forms are well conditioned
    for es in (0.3, 0.75):
        q0 = 0.5*((1 + 3/es**2)*math.atan(es) - 3/es)
        q0s = 3*((1 + 1/es**2)*(1 - math.atan(es)/es)) - 1
        f = 1 - 1/math.sqrt(1 + es*es)
        a, GM, w = 6.4e6, 4e14, 7e-5
        b = a*(1 - f)
        m = w*w*a*a*b/GM
        ge = GM*(1 - m - m*es*q0s/(6*q0))/(a*b)
        gp = GM*(1 + m*es*q0s/(3*q0))/(a*a)
        ge2, gp2, m2 = oracle.level_ellipsoid_gravity(a, f, GM, w)
        assert abs(ge - ge2)/ge < 1e-12 and abs(gp - gp2)/gp < 1e-12, (ge, ge2, gp, gp2)
    ge, gp, m = oracle.level_ellipsoid_gravity(6e6, 0.0, 4e14, 7e-5)
    assert abs(ge - 4e14/36e12*(1 - 1.5*m)) < 1e-12 and abs(gp - 4e14/36e12*(1 + m)) < 1e-12


SUBCHECKS = {
    'ellipsoid': Sub(lambda tier: _ell_case(), eval_ellipsoid, quick=60000, thorough=600000),
    'bodies': Sub(lambda tier: _body_case(), eval_body, quick=4000, thorough=40000),
}
