"""C17 — coordinate-frame transformations are mutually inverse rigid maps."""
from __future__ import annotations

import math
import numpy as np
from hypothesis import strategies as st

from vf.core import Sub
from vf import gen, oracle

PROPERTY = 'C17'
LEVEL = 'exploration'
RULE = ('geodetic: lat in [-90,90] (uniform, exact 0 and +-90, 90-10**U(-10,-1), +-10**U(-12,-1)), lon in [-180,180] incl. 0, '
        '+-180, +-90, h in [-1e4,1e6] m, ellipsoid WGS84 or custom (a in 1e6..1e7, flattening 0..0.01): geodetic2ecef must '
        'equal the own forward formula (1e-6 m) and ecef2geodetic / ecef2lla must return the point (position and height within '
        '2.5(a+|h|)1e-8 e^2/(1-e^2)+1e-6 m, i.e. <= 6e-3 m; latitude within twice the stopping residual; |dlon| cos(lat) <= 1e-7 deg). local: origin, offsets up to 1e6 m: '
        'enu2ecef(ecef2enu(P)) = P and ecef2enu(enu2ecef(e)) = e (1e-6 m), origin -> 0 exactly, distances preserved (1e-9 rel), '
        'ecef2enu equals the own ENU basis projection, geodetic2enu consistent. angles: aer<->enu, dca<->enu (deg and rad), '
        'ned<->enu bit-exact involution on (3,) and (N,3). llf: llf2ecef = ecef2llf^T bit-exact, orthogonal to 1e-15. '
        'Non-trivial: |lat|>89 or |lat|<1e-6 or |h|>1e5 or offset>1e5; distinct = case hash.')
ASSUMPTIONS = ['latitudes/longitudes are passed as Python floats (the documented scalar interface)',
               "the iteration's own stopping rule (1e-8 rad) bounds the achievable round-trip accuracy; limits carry >= 20x margin"]
REQUIRED_LABELS = ['geodetic:lat=equator', 'geodetic:lat=pole', 'geodetic:lat=near_pole', 'geodetic:custom_ellipsoid']


def _lat():
    return st.one_of(
        st.tuples(st.just('generic'), gen.fl(-89.0, 89.0)),
        st.tuples(st.just('equator'), st.just(0.0)),
        st.tuples(st.just('pole'), st.sampled_from([90.0, -90.0])),
        st.tuples(st.just('near_pole'), st.tuples(gen.signs(), gen.log_uniform(-10, -1)).map(lambda t: t[0]*(90.0 - t[1]))),
        st.tuples(st.just('near_equator'), st.tuples(gen.signs(), gen.log_uniform(-12, -1)).map(lambda t: t[0]*t[1])))


def _lon():
    return st.one_of(gen.fl(-180.0, 180.0), st.sampled_from([0.0, 180.0, -180.0, 90.0, -90.0, 45.0]))


def _ellipsoid():
    return st.one_of(st.none(), st.tuples(gen.fl(1e6, 1e7), st.one_of(gen.fl(0.0, 0.01), st.just(0.0))))


def _geo_case():
    return st.fixed_dictionaries({'lat': _lat(), 'lon': _lon(),
                                  'h': st.one_of(gen.fl(-1e4, 1e6), st.sampled_from([0.0, 1e6, -1e4])),
                                  'ell': _ellipsoid()})


def _default_ab():
    # the documented defaults are data of the package (EARTH_POLAR_RADIUS is the rounded 6356752.3142), not logic
    from ahrs.common import constants
    return float(constants.EARTH_EQUATOR_RADIUS), float(constants.EARTH_POLAR_RADIUS)


def _ab(ell):
    if ell is None:
        return None
    a, f = float(ell[0]), float(ell[1])
    return a, a*(1.0 - f)


def eval_geodetic(case, ctx):
    from ahrs.common import frames
    cls, lat = case['lat']
    lat, lon, h = float(lat), float(case['lon']), float(case['h'])
    ab = _ab(case['ell'])
    kw = {} if ab is None else {'a': ab[0], 'b': ab[1]}
    ctx.label(f'lat={cls}')
    if ab is not None:
        ctx.label('custom_ellipsoid')
    ctx.nt(abs(lat) > 89 or abs(lat) < 1e-6 or abs(h) > 1e5)
    a, b = ab if ab else _default_ab()
    ref = oracle.geodetic2ecef(lat, lon, h, a, b)
    ok, X = ctx.call('geodetic2ecef', lambda: np.asarray(frames.geodetic2ecef(lat, lon, h, **kw), dtype=float))
    if not ok:
        return
    if X.shape != (3,) or not np.all(np.isfinite(X)):
        ctx.fail('geodetic2ecef|bad', f'{X!r}')
        return
    e = float(np.linalg.norm(X - ref))
    if e > 1e-6:
        ctx.fail(f'geodetic2ecef|mismatch|{cls}', f'{e:.3e} m at lat={lat!r} lon={lon!r} h={h!r}')
        return
    for name in ('ecef2geodetic', 'ecef2lla'):
        ok, g = ctx.call(f'{name}|{cls}', lambda: np.asarray(getattr(frames, name)(float(X[0]), float(X[1]), float(X[2]), **kw), dtype=float))
        if not ok:
            continue
        if g.shape != (3,) or not np.all(np.isfinite(g)):
            ctx.fail(f'{name}|nonfinite|{cls}', f'{g!r} for lat={lat!r} lon={lon!r} h={h!r}')
            continue
        back = oracle.geodetic2ecef(float(g[0]), float(g[1]), float(g[2]), a, b)
        pos = float(np.linalg.norm(back - ref))
        dlat = abs(g[0] - lat)
        dlon = abs((g[1] - lon + 180.0) % 360.0 - 180.0)*math.cos(math.radians(lat))
        dh = abs(g[2] - h)
        # Tolerance from the routine's own documented stopping rule: iterates closer than 1e-8 rad, fixed-point
        # contraction e^2 cos^2(lat)  =>  residual latitude error <= 1e-8 e^2 cos^2/(1-e^2) rad; height follows as
        # (N+h) tan(lat) dlat.  (1+|tan|) cos^2 <= 1.21, hence the 2.5 below.  <= 6e-3 m for flattening <= 0.01.
        e2 = (a*a - b*b)/(a*a)
        dphi = 1e-8*e2/(1.0 - e2)
        pos_tol = 2.5*(a + abs(h))*dphi + 1e-6
        lat_tol = math.degrees(2.0*dphi) + 1e-9
        ctx.target(max(pos/pos_tol, dh/pos_tol, dlat/lat_tol), 'roundtrip')
        if pos > pos_tol or dh > pos_tol or dlat > lat_tol or dlon > 1e-7:
            ctx.fail(f'{name}|roundtrip|{cls}', f'in ({lat!r},{lon!r},{h!r}) out {g.tolist()} pos {pos:.3e} m dh {dh:.3e} (tol {pos_tol:.2e}) dlat {dlat:.3e} (tol {lat_tol:.2e}) dlon*cos {dlon:.3e}')


def _local_case():
    off = st.tuples(gen.signs(), gen.log_uniform(-2, 6)).map(lambda t: t[0]*t[1])
    return st.fixed_dictionaries({'lat': _lat(), 'lon': _lon(), 'h': gen.fl(-1e4, 1e6),
                                  'p': st.lists(off, min_size=3, max_size=3), 'q': st.lists(off, min_size=3, max_size=3),
                                  'ell': _ellipsoid()})


def eval_local(case, ctx):
    from ahrs.common import frames
    cls, lat = case['lat']
    lat, lon, h = float(lat), float(case['lon']), float(case['h'])
    ab = _ab(case['ell'])
    kw = {} if ab is None else {'a': ab[0], 'b': ab[1]}
    a, b = ab if ab else _default_ab()
    e_p = np.array([float(x) for x in case['p']])
    e_q = np.array([float(x) for x in case['q']])
    ctx.label(f'lat={cls}')
    ctx.nt(max(abs(e_p).max(), abs(e_q).max()) > 1e5 or abs(lat) > 89 or abs(lat) < 1e-6)
    O = oracle.geodetic2ecef(lat, lon, h, a, b)
    Bm = oracle.enu_basis(lat, lon)
    scale = 1e7
    # ENU -> ECEF -> ENU
    ok, P = ctx.call('enu2ecef', lambda: np.asarray(frames.enu2ecef(float(e_p[0]), float(e_p[1]), float(e_p[2]), lat, lon, h, **kw), dtype=float))
    if ok:
        refP = O + Bm.T @ e_p
        if float(np.linalg.norm(P - refP)) > 1e-6:
            ctx.fail('enu2ecef|mismatch', f'{float(np.linalg.norm(P - refP)):.3e} m')
        ok2, e2 = ctx.call('ecef2enu', lambda: np.asarray(frames.ecef2enu(float(P[0]), float(P[1]), float(P[2]), lat, lon, h, **kw), dtype=float))
        if ok2 and float(np.linalg.norm(e2 - e_p)) > 1e-6:
            ctx.fail('ecef2enu(enu2ecef)|not_identity', f'{float(np.linalg.norm(e2 - e_p)):.3e} m for offset {e_p.tolist()}')
    # ECEF -> ENU -> ECEF for a second point, distances, origin
    Pq = O + Bm.T @ e_q
    ok, eq = ctx.call('ecef2enu', lambda: np.asarray(frames.ecef2enu(float(Pq[0]), float(Pq[1]), float(Pq[2]), lat, lon, h, **kw), dtype=float))
    if ok:
        if float(np.linalg.norm(eq - e_q)) > 1e-6:
            ctx.fail('ecef2enu|mismatch', f'{float(np.linalg.norm(eq - e_q)):.3e} m')
        ok2, back = ctx.call('enu2ecef', lambda: np.asarray(frames.enu2ecef(float(eq[0]), float(eq[1]), float(eq[2]), lat, lon, h, **kw), dtype=float))
        if ok2 and float(np.linalg.norm(back - Pq)) > 1e-6:
            ctx.fail('enu2ecef(ecef2enu)|not_identity', f'{float(np.linalg.norm(back - Pq)):.3e} m')
    ok, ep = ctx.call('ecef2enu', lambda: np.asarray(frames.ecef2enu(*[float(c) for c in (O + Bm.T @ e_p)], lat, lon, h, **kw), dtype=float))
    if ok and 'eq' in dir() and isinstance(eq, np.ndarray):
        d_ecef = float(np.linalg.norm((O + Bm.T @ e_p) - Pq))
        d_enu = float(np.linalg.norm(ep - eq))
        if abs(d_ecef - d_enu) > 1e-9*max(d_ecef, 1.0) + 1e-8:
            ctx.fail('ecef2enu|distance_not_preserved', f'{d_ecef!r} vs {d_enu!r}')
    # origin maps to zero exactly (the origin is computed by the package itself)
    ok, O_pkg = ctx.call('geodetic2ecef', lambda: np.asarray(frames.geodetic2ecef(lat, lon, h, **kw), dtype=float))
    if ok:
        ok2, z = ctx.call('ecef2enu', lambda: np.asarray(frames.ecef2enu(float(O_pkg[0]), float(O_pkg[1]), float(O_pkg[2]), lat, lon, h, **kw), dtype=float))
        if ok2 and np.any(z != 0.0):
            ctx.fail('ecef2enu|origin_not_zero', f'{z.tolist()}')
    # ecef2enuv and enu2uvw are the rotation parts
    ok, v = ctx.call('ecef2enuv', lambda: np.asarray(frames.ecef2enuv(float(Pq[0]), float(Pq[1]), float(Pq[2]), float(O[0]), float(O[1]), float(O[2]), lat, lon), dtype=float))
    if ok and float(np.linalg.norm(v - e_q)) > 1e-6:
        ctx.fail('ecef2enuv|mismatch', f'{float(np.linalg.norm(v - e_q)):.3e}')
    for unit in ('deg', 'rad'):
        la, lo = (lat, lon) if unit == 'deg' else (math.radians(lat), math.radians(lon))
        ok, uvw = ctx.call('enu2uvw', lambda: np.asarray(frames.enu2uvw(float(e_p[0]), float(e_p[1]), float(e_p[2]), la, lo, unit), dtype=float))
        if ok and float(np.linalg.norm(uvw - Bm.T @ e_p)) > 1e-9*max(1.0, float(np.linalg.norm(e_p))):
            ctx.fail(f'enu2uvw|mismatch|{unit}', f'{float(np.linalg.norm(uvw - Bm.T @ e_p)):.3e}')
    # geodetic2enu of a second geodetic point
    lat2 = max(-90.0, min(90.0, lat + float(e_q[0])*1e-7))
    lon2 = max(-180.0, min(180.0, lon + float(e_q[1])*1e-7))
    h2 = h + float(e_q[2])*1e-3
    ok, g = ctx.call('geodetic2enu', lambda: np.asarray(frames.geodetic2enu(lat2, lon2, h2, lat, lon, h, **kw), dtype=float))
    if ok:
        ref = Bm @ (oracle.geodetic2ecef(lat2, lon2, h2, a, b) - O)
        if float(np.linalg.norm(g - ref)) > 1e-6:
            ctx.fail('geodetic2enu|mismatch', f'{float(np.linalg.norm(g - ref)):.3e} m')


def _angles_case():
    off = st.tuples(gen.signs(), gen.log_uniform(-3, 6)).map(lambda t: t[0]*t[1])
    return st.fixed_dictionaries({'e': st.lists(off, min_size=3, max_size=3),
                                  'az': st.one_of(gen.fl(0.0, 359.999), st.sampled_from([0.0, 90.0, 180.0, 270.0])),
                                  'el': st.one_of(gen.fl(-89.9, 89.9), st.sampled_from([0.0, 45.0, -45.0])),
                                  'r': gen.log_uniform(-2, 6), 'angle': st.one_of(gen.fl(-360.0, 360.0), st.sampled_from([0.0, 90.0, 180.0, -90.0])),
                                  'deg': st.booleans(), 'n': st.integers(1, 5)})


def eval_angles(case, ctx):
    from ahrs.common import frames
    e = np.array([float(x) for x in case['e']])
    deg = bool(case['deg'])
    ctx.label('deg' if deg else 'rad')
    ctx.nt(True)
    sc = float(np.linalg.norm(e))
    # ENU -> AER -> ENU
    ok, aer = ctx.call('enu2aer', lambda: np.asarray(frames.enu2aer(float(e[0]), float(e[1]), float(e[2]), deg=deg), dtype=float))
    if ok:
        if aer.shape != (3,) or not np.all(np.isfinite(aer)):
            ctx.fail('enu2aer|bad', f'{aer!r}')
        else:
            if abs(aer[2] - sc) > 1e-12*sc:
                ctx.fail('enu2aer|range', f'{aer[2]!r} vs {sc!r}')
            full = 360.0 if deg else 2*math.pi
            if not (0 <= aer[0] <= full) or abs(aer[1]) > full/4*(1+1e-15):
                ctx.fail('enu2aer|angle_range', f'{aer.tolist()}')
            ok2, e2 = ctx.call('aer2enu', lambda: np.asarray(frames.aer2enu(float(aer[0]), float(aer[1]), float(aer[2]), deg=deg), dtype=float))
            if ok2 and float(np.linalg.norm(e2 - e)) > 1e-9*sc:
                ctx.fail('aer2enu(enu2aer)|not_identity', f'{float(np.linalg.norm(e2 - e)):.3e} for {e.tolist()}')
    # AER -> ENU -> AER
    az, el, r = float(case['az']), float(case['el']), float(case['r'])
    a_in = (az, el) if deg else (math.radians(az), math.radians(el))
    ok, e3 = ctx.call('aer2enu', lambda: np.asarray(frames.aer2enu(a_in[0], a_in[1], r, deg=deg), dtype=float))
    if ok:
        ref = r*np.array([math.cos(math.radians(el))*math.sin(math.radians(az)), math.cos(math.radians(el))*math.cos(math.radians(az)), math.sin(math.radians(el))])
        if float(np.linalg.norm(e3 - ref)) > 1e-12*r*4:
            ctx.fail('aer2enu|mismatch', f'{float(np.linalg.norm(e3 - ref)):.3e}')
        ok2, aer2 = ctx.call('enu2aer', lambda: np.asarray(frames.enu2aer(float(e3[0]), float(e3[1]), float(e3[2]), deg=deg), dtype=float))
        if ok2:
            full = 360.0 if deg else 2*math.pi
            d_az = abs((aer2[0] - a_in[0] + full/2) % full - full/2)*math.cos(math.radians(el))
            if d_az > 1e-9*full or abs(aer2[1] - a_in[1]) > 1e-9*full or abs(aer2[2] - r) > 1e-12*r*4:
                ctx.fail('enu2aer(aer2enu)|not_identity', f'in {a_in + (r,)} out {aer2.tolist()}')
    # DCA
    ang = float(case['angle'])
    a_arg = ang if deg else math.radians(ang)
    ok, dca = ctx.call('enu2dca', lambda: np.asarray(frames.enu2dca(float(e[0]), float(e[1]), float(e[2]), a_arg, deg=deg), dtype=float))
    if ok:
        if abs(float(np.linalg.norm(dca)) - sc) > 1e-12*sc*4:
            ctx.fail('enu2dca|norm_not_preserved', '')
        if dca[2] != e[2]:
            ctx.fail('enu2dca|vertical_changed', '')
        ok2, e4 = ctx.call('dca2enu', lambda: np.asarray(frames.dca2enu(float(dca[0]), float(dca[1]), float(dca[2]), a_arg, deg=deg), dtype=float))
        if ok2 and float(np.linalg.norm(e4 - e)) > 1e-12*sc*8:
            ctx.fail('dca2enu(enu2dca)|not_identity', f'{float(np.linalg.norm(e4 - e)):.3e}')
    ok, e5 = ctx.call('dca2enu', lambda: np.asarray(frames.dca2enu(float(e[0]), float(e[1]), float(e[2]), a_arg, deg=deg), dtype=float))
    if ok:
        ok2, d5 = ctx.call('enu2dca', lambda: np.asarray(frames.enu2dca(float(e5[0]), float(e5[1]), float(e5[2]), a_arg, deg=deg), dtype=float))
        if ok2 and float(np.linalg.norm(d5 - e)) > 1e-12*sc*8:
            ctx.fail('enu2dca(dca2enu)|not_identity', f'{float(np.linalg.norm(d5 - e)):.3e}')
    # NED <-> ENU
    n = case['n']
    X = np.array([e*(k+1) for k in range(n)])
    for name_a, name_b in (('ned2enu', 'enu2ned'), ('enu2ned', 'ned2enu')):
        ok, y = ctx.call(name_a, lambda: np.asarray(getattr(frames, name_a)(np.array(e)), dtype=float))
        if ok:
            if not np.array_equal(y, np.array([e[1], e[0], -e[2]])):
                ctx.fail(f'{name_a}|not_the_permutation', f'{y.tolist()}')
            ok2, z = ctx.call(name_b, lambda: np.asarray(getattr(frames, name_b)(np.array(y)), dtype=float))
            if ok2 and not np.array_equal(z, e):
                ctx.fail(f'{name_b}({name_a})|not_identity', '')
        ok, Y = ctx.call(f'{name_a}[N]', lambda: np.asarray(getattr(frames, name_a)(np.array(X)), dtype=float))
        if ok:
            if Y.shape != X.shape or not np.array_equal(Y, np.c_[X[:, 1], X[:, 0], -X[:, 2]]):
                ctx.fail(f'{name_a}[N]|not_the_permutation', f'shape {Y.shape}')


def _llf_case():
    return st.fixed_dictionaries({'lat': gen.angles_any(), 'lon': gen.angles_any()})


def eval_llf(case, ctx):
    from ahrs.common import frames
    la, lo = float(case['lat']), float(case['lon'])
    ctx.nt(la != 0 and lo != 0)
    ok, A = ctx.call('llf2ecef', lambda: np.asarray(frames.llf2ecef(la, lo), dtype=float))
    ok2, B = ctx.call('ecef2llf', lambda: np.asarray(frames.ecef2llf(la, lo), dtype=float))
    if ok and ok2:
        if A.shape != (3, 3) or B.shape != (3, 3):
            ctx.fail('llf|shape', '')
            return
        if not np.array_equal(A, B.T):
            ctx.fail('llf|not_transposes', f'{np.max(np.abs(A - B.T)):.3e}')
        if float(np.max(np.abs(A @ A.T - np.identity(3)))) > 1e-15*4:
            ctx.fail('llf|not_orthogonal', f'{np.max(np.abs(A @ A.T - np.identity(3))):.3e}')
        if float(np.max(np.abs(A @ B - np.identity(3)))) > 1e-15*4:
            ctx.fail('llf|not_inverse', '')


def selftest():
    oracle.selftest()
    B = oracle.enu_basis(37.0, -122.0)
    assert np.max(np.abs(B @ B.T - np.identity(3))) < 1e-15
    assert abs(np.linalg.det(B) - 1) < 1e-15


SUBCHECKS = {
    'geodetic': Sub(lambda tier: _geo_case(), eval_geodetic, quick=20000, thorough=1000000),
    'local': Sub(lambda tier: _local_case(), eval_local, quick=8000, thorough=400000),
    'angles': Sub(lambda tier: _angles_case(), eval_angles, quick=8000, thorough=400000),
    'llf': Sub(lambda tier: _llf_case(), eval_llf, quick=4000, thorough=200000),
}
