"""C18 — rotation metrics are bi-invariant distances with their closed forms."""
from __future__ import annotations

import math
import numpy as np
from hypothesis import strategies as st

from vf.core import Sub
from vf import gen, oracle

PROPERTY = 'C18'
LEVEL = 'exploration'
RULE = ('Cases (a, relative rotation of angle t about a random axis, left/right multipliers g,h, a third rotation c, N-1 '
        'further row pairs): a,g,h,c from the shared unit-quaternion mixture; t log-uniform from both ends of [1e-4,pi] plus '
        'exactly 0 and exactly pi. All seven metrics (chordal, identity_deviation, angular_distance on matrices built with the '
        'own q->R; qdist, qeip, qcip, qad on quaternions, single and N-row, N<=6) are checked for: non-negativity, symmetry, '
        'd(a,a)~0, d>0 for t>=1e-4, invariance under q->-q, bi-invariance d(gah,gbh)=d(a,b), the closed form in t, N-row = '
        'single row by row (also with the two stacks held by the caller and handed in three times, swapped in between), and the triangle inequality on (a,b,c) for the six true metrics (not qeip). Non-trivial: t<1e-2 or '
        't>3 or N>=2; distinct = case hash.')
ASSUMPTIONS = ['1e-9 tolerance for the well-conditioned forms; arccos-based forms (qcip, qad) get 1e-9 + 2e-15/t + min(1e-7, 2e-15/(pi-t))',
               'qeip is not a metric (1-cos is not subadditive): its triangle inequality is deliberately not asserted']
REQUIRED_LABELS = ['metrics:held_arrays', 'metrics:t=tiny', 'metrics:t=near_pi', 'metrics:t=exact_pi', 'metrics:t=zero', 'metrics:N>=2']
PI = math.pi


def _case():
    t = st.one_of(
        st.tuples(st.just('generic'), gen.fl(1e-2, 3.0)),
        st.tuples(st.just('tiny'), gen.log_uniform(-4, -2)),
        st.tuples(st.just('near_pi'), gen.log_uniform(-9, -1).map(lambda d: PI - d)),
        st.tuples(st.just('exact_pi'), st.just(PI)),
        st.tuples(st.just('zero'), st.just(0.0)))

    @st.composite
    def build(draw):
        n = draw(st.integers(1, 6))
        rows = []
        for _ in range(n):
            rows.append({'a': draw(gen.unit_quaternions(allow_denormal=False)), 'axis': draw(gen.axes()), 't': draw(t),
                         'flip': draw(st.booleans())})
        return {'rows': rows, 'idx': draw(st.integers(0, n-1)),
                'g': draw(gen.unit_quaternions(allow_denormal=False)), 'h': draw(gen.unit_quaternions(allow_denormal=False)),
                'c': draw(gen.unit_quaternions(allow_denormal=False)), 'scale': draw(gen.scales(-2, 2))}
    return build()


def closed_forms(t):
    return {
        'qad': t, 'qcip': 0.5*t, 'qeip': 2.0*math.sin(0.25*t)**2, 'qdist': 2.0*math.sin(0.25*t),
        'chordal': 2.0*math.sqrt(2.0)*math.sin(0.5*t), 'identity_deviation': 2.0*math.sqrt(2.0)*math.sin(0.5*t),
        'angular_distance': math.sqrt(2.0)*t}


def tol_for(name, t):
    if name in ('qcip', 'qad'):
        return 1e-9 + 2e-15/max(t, 1e-300) + (min(1e-7, 2e-15/max(PI - t, 1e-300)) if name == 'qad' else 0.0)
    return 1e-9


QUAT = ['qdist', 'qeip', 'qcip', 'qad']
MAT = ['chordal', 'identity_deviation', 'angular_distance']
TRIANGLE = ['chordal', 'identity_deviation', 'angular_distance', 'qdist', 'qcip', 'qad']


def evaluate(case, ctx):
    from ahrs.utils import metrics as M
    rows = case['rows']
    n = len(rows)
    idx = case['idx']
    A, B, T = [], [], []
    for r in rows:
        a = np.array(r['a'], dtype=float)
        cls, t = r['t']
        t = float(t)
        rel = oracle.axang2q(r['axis'], t)
        b = oracle.qmul(a, rel)
        b = b/oracle.qnorm(b)
        if r.get('flip'):
            b = -b          # the antipodal representative of the same rotation
        A.append(a)
        B.append(b)
        T.append((cls, t))
    cls, t = T[idx]
    a, b = A[idx], B[idx]
    ctx.label(f't={cls}')
    if n >= 2:
        ctx.label('N>=2')
    ctx.nt(t < 1e-2 or t > 3 or n >= 2)
    g, h, c = (np.array(case[k], dtype=float) for k in 'ghc')
    Ra, Rb, Rc = oracle.q2R(a), oracle.q2R(b), oracle.q2R(c)
    cf = closed_forms(t)
    sc = float(case['scale'])

    def qm(name, x, y):
        return ctx.call(name, lambda: getattr(M, name)(np.array(x), np.array(y)))

    worst = 0.0
    for name in QUAT + MAT:
        is_q = name in QUAT
        x, y, z = (a, b, c) if is_q else (Ra, Rb, Rc)
        tol = tol_for(name, t)
        ok, d = qm(name, x, y)
        if not ok:
            continue
        try:
            d = float(d)
        except Exception:
            ctx.fail(f'{name}|not_scalar', f'{d!r}')
            continue
        if not math.isfinite(d):
            ctx.fail(f'{name}|nonfinite|{cls}', f'{d!r} at t={t!r}')
            continue
        if d < 0:
            ctx.fail(f'{name}|negative', f'{d!r}')
        e = abs(d - cf[name])
        worst = max(worst, e/tol)
        if cls == 'zero':
            if d > 1e-7:
                ctx.fail(f'{name}|nonzero_for_equal_rotations', f'{d!r}')
        else:
            if e > tol:
                kind = 'zero_returned' if d == 0.0 else 'closed_form'
                ctx.fail(f'{name}|{kind}|{cls}', f'd={d!r} expected {cf[name]!r} at t={t!r}')
            if d <= 0:
                ctx.fail(f'{name}|zero_for_distinct_rotations|{cls}', f't={t!r}')
        # symmetry
        ok, d2 = qm(name, y, x)
        if ok and abs(float(d2) - d) > 1e-12 + (tol if name in ('qcip', 'qad') else 0):
            ctx.fail(f'{name}|asymmetric', f'{d!r} vs {float(d2)!r}')
        # identity of indiscernibles (same argument twice)
        ok, d0 = qm(name, x, x)
        if ok and not (abs(float(d0)) <= 1e-7):
            ctx.fail(f'{name}|self_distance', f'{float(d0)!r}')
        if is_q:
            ok, dn = qm(name, -np.array(x), y)
            if ok and not abs(float(dn) - d) <= 1e-12 + (tol if name in ('qcip', 'qad') else 0):
                ctx.fail(f'{name}|sign_dependent', f'd(-q1,q2)={float(dn)!r} vs {d!r}')
            ok, ds = qm(name, sc*np.array(x), y)          # non-normalised input is normalised, not rejected
            if ok and not abs(float(ds) - d) <= 1e-9 + tol:
                ctx.fail(f'{name}|scale_dependent', f'd({sc}*q1,q2)={float(ds)!r} vs {d!r}')
            gx = oracle.qmul(oracle.qmul(g, x), h)
            gy = oracle.qmul(oracle.qmul(g, y), h)
        else:
            Rg, Rh = oracle.q2R(g), oracle.q2R(h)
            gx, gy = Rg @ x @ Rh, Rg @ y @ Rh
        ok, dg = qm(name, gx, gy)
        if ok:
            dg = float(dg)
            if not abs(dg - d) <= 1e-9 + 2*tol:
                ctx.fail(f'{name}|not_bi_invariant|{cls}', f'd(gah,gbh)={dg!r} vs d(a,b)={d!r} at t={t!r}')
        # triangle inequality
        # the statement quantifies over relative angles that are 0 or in [1e-4, pi]: the quaternion metrics
        # deliberately snap pairs closer than np.allclose's resolution to 0, so such triples are skipped (counted)
        sub_res = any(0.0 < oracle.qangle(u_, v_) < 1e-4 for u_, v_ in ((a, c), (c, b)))
        if name in TRIANGLE and sub_res:
            ctx.label('triangle_skipped_subresolution')
        if name in TRIANGLE and not sub_res:
            ok1, dac = qm(name, x, z)
            ok2, dcb = qm(name, z, y)
            if ok1 and ok2 and math.isfinite(float(dac)) and math.isfinite(float(dcb)):
                if d > float(dac) + float(dcb) + 1e-9 + 3*tol_for(name, max(t, 1e-4)):
                    ctx.fail(f'{name}|triangle', f'd(a,b)={d!r} > {float(dac)!r}+{float(dcb)!r}')
    ctx.target(worst, 'closed_form_err')

    # N-row inputs equal the single-row results
    if n >= 1:
        QA, QB = np.array(A), np.array(B)
        for name in QUAT:
            ok, D = ctx.call(f'{name}[N]', lambda: np.asarray(getattr(M, name)(np.array(QA), np.array(QB)), dtype=float))
            if not ok:
                continue
            if D.shape != (n,):
                ctx.fail(f'{name}[N]|shape', f'{D.shape} for N={n}')
                continue
            for i in range(n):
                ci, ti = T[i]
                ref = closed_forms(ti)[name]
                tl = tol_for(name, ti) if ci != 'zero' else 1e-7
                if not math.isfinite(D[i]):
                    ctx.fail(f'{name}[N]|nonfinite|{ci}', f'row {i} t={ti!r}: {D[i]!r}')
                elif abs(D[i] - ref) > tl:
                    ctx.fail(f'{name}[N]|closed_form|{ci}', f'row {i} t={ti!r}: {D[i]!r} expected {ref!r}')
        RA = np.array([oracle.q2R(x) for x in A])
        RB = np.array([oracle.q2R(x) for x in B])
        ok, D = ctx.call('chordal[N]', lambda: np.asarray(M.chordal(np.array(RA), np.array(RB)), dtype=float))
        if ok:
            if D.shape != (n,):
                ctx.fail('chordal[N]|shape', f'{D.shape} for N={n}')
            else:
                for i in range(n):
                    ref = closed_forms(T[i][1])['chordal']
                    if not abs(D[i] - ref) <= 1e-9:
                        ctx.fail('chordal[N]|closed_form', f'row {i}: {D[i]!r} expected {ref!r}')

        # the same stacks held by the caller and handed in again, swapped: the symmetric value (closed form) once more.  A metric
        # that works in its arguments' storage answers the first call correctly and the next one from the leftovers.
        HA, HB = np.array(RA), np.array(RB)
        HQA, HQB = np.array(QA, dtype=float), np.array(QB, dtype=float)
        ctx.label('held_arrays')
        for name, X, Y in [('chordal', HA, HB)] + [(nm, HQA, HQB) for nm in QUAT]:
            for rnd, (U, V) in enumerate([(X, Y), (Y, X), (X, Y)]):
                ok, D = ctx.call(f'{name}[N,held]', lambda: np.asarray(getattr(M, name)(U, V), dtype=float))
                if not ok or D.shape != (n,):
                    break
                bad = [i for i in range(n) if not abs(D[i] - closed_forms(T[i][1])[name]) <= max(1e-9, tol_for(name, T[i][1]) if T[i][0] != 'zero' else 1e-7)]
                if bad:
                    i = bad[0]
                    ctx.fail(f'{name}[N,held]|closed_form_on_call_{rnd + 1}_with_the_same_arrays', f'row {i}: {D[i]!r} expected {closed_forms(T[i][1])[name]!r}')
                    break


def selftest():
    oracle.selftest()
    # qeip is not subadditive: documented reason for leaving it out of TRIANGLE
    f = lambda x: 1 - math.cos(x)
    assert f(math.pi/2) > 2*f(math.pi/4)


SUBCHECKS = {'metrics': Sub(lambda tier: _case(), evaluate, quick=12000, thorough=600000)}
