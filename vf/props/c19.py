"""C19 — public functions never modify the caller's arrays and are repeatable."""
from __future__ import annotations

import inspect
import math
import numpy as np
from hypothesis import strategies as st

from vf.core import Sub, HarnessError
from vf import gen, oracle

PROPERTY = 'C19'
LEVEL = 'exploration'
RULE = ('An explicit table of public callables that take array-like arguments (free functions of orientation, quaternion, dcm, '
        'frames, mathfuncs, metrics, core; constructors and methods of Quaternion, QuaternionArray, DCM; constructor, estimate and '
        'update* of every filter class; Sensors) is checked at start-up against inspect-discovered public names (a public callable '
        'that is neither in the table nor in the reasoned exemption list is a harness error). Per case a data bundle is drawn '
        '(PRNG seeded by a Hypothesis integer; N in 2..6 rows; quaternions NOT normalised with norms 10**U(-1,1); angles in degrees '
        'where a deg flag exists; acc/mag of arbitrary scale; weights not summing to 1; float64 C-contiguous arrays and views). Every '
        'table entry is called with fresh copies; for constructor-then-method entries (UKF(P=).update, EKF(P=).update, Mahony(b0=).update*, '
        '<Estimator>(weights=).estimate, ...) the arrays given to the constructor are watched during the later method call too. Oracle: the bytes of every ndarray argument (also nested in tuples/lists) are '
        'identical before and after the call; for methods of Quaternion / QuaternionArray / DCM the receiver (buffer and .A / .array) is watched too unless the call is an explicit in-place request, and a second identical call on the same object must return the same bytes (also for the update / estimate methods of the filters that carry no state between calls: AQUA, Madgwick, AngularRate, Fourati, the single-frame estimators); a second call on a fresh '
        'instance with identical argument values (same NumPy seed for the randomised OLEQ start) returns byte-identical results. '
        'Explicit in-place operations (normalize, remove_jumps, inplace=True) and random generators are exempt. Non-trivial: '
        'the callee has to change its argument internally (non-unit quaternion, degree flag, non-unit vectors, weights not '
        'normalised), i.e. every case; distinct = case hash.')
ASSUMPTIONS = ['arguments are ndarrays of dtype float64 (lists are copied by np.array on entry and cannot be mutated)',
               'random generators (q_random, random_attitudes, Quaternion(random=True), rot_seq(angles=None), Sensors noise/bias) are exempt from repeatability']
REQUIRED_LABELS = ['calls:entries>=140']


class D:
    """Data bundle for one case."""

    def __init__(self, seed, n, view):
        rs = np.random.RandomState(seed)
        self.n = n
        u = lambda *s: rs.randn(*s)

        def arr(x):
            x = np.array(x, dtype=float)
            if view and x.ndim >= 1:
                big = np.zeros((2,) + x.shape)
                big[1] = x
                return big[1]            # a C-contiguous view into a larger buffer
            return x
        self._arr = arr
        sc = lambda: 10.0**rs.uniform(-1, 1)
        self.q = arr(oracle.qnormalize(u(4))*sc())
        self.p = arr(oracle.qnormalize(u(4))*sc())
        self.qu = arr(oracle.qnormalize(u(4)))
        self.v = arr(u(3)*sc())
        self.w = arr(u(3)*0.3)
        self.axis = arr(u(3)*sc())
        self.angle = float(rs.uniform(0.2, 2.5))
        self.R = arr(oracle.rodrigues(u(3), rs.uniform(0.3, 2.8)))
        self.R2 = arr(oracle.rodrigues(u(3), rs.uniform(0.3, 2.8)))
        self.RN = arr([oracle.rodrigues(u(3), rs.uniform(0.3, 2.8)) for _ in range(n)])
        self.RN2 = arr([oracle.rodrigues(u(3), rs.uniform(0.3, 2.8)) for _ in range(n)])
        self.Q = arr([oracle.qnormalize(u(4))*sc() for _ in range(n)])
        self.Q2 = arr([oracle.qnormalize(u(4))*sc() for _ in range(n)])
        q0 = oracle.qnormalize(u(4))
        seq = [q0]
        for _ in range(n-1):
            seq.append(oracle.qnormalize(oracle.qmul(seq[-1], oracle.axang2q(u(3), 0.2))))
        self.Qs = arr(seq)
        self.ang = arr(rs.uniform(-1.2, 1.2, 3))
        self.ang_deg = arr(rs.uniform(-70, 70, 3))
        self.Ang = arr(rs.uniform(-1.2, 1.2, (n, 3)))
        self.acc = arr(u(3)*sc()*9.81)
        self.mag = arr(np.cross(self.acc, u(3))*sc() + 0.3*self.acc)
        self.gyr = arr(u(3)*0.2)
        self.ACC = arr(u(n, 3)*9.81*sc())
        self.MAG = arr(np.cross(self.ACC, u(n, 3)) + 0.2*self.ACC)
        self.GYR = arr(u(n, 3)*0.2)
        self.weights = arr([0.7, 2.1])
        self.t = arr(np.sort(rs.uniform(0, 1, 4)))
        self.X = arr(u(n, 3))
        self.Y = arr(u(n, 3))
        self.P4 = arr(np.identity(4)*0.5)
        self.Q4 = arr(np.identity(4)*2e-4)
        self.P4s = arr(np.identity(4)*0.01)
        self.R3 = arr(np.identity(3)*0.02)
        self.noises = arr([0.1, 0.2, 0.3])
        self.mref = arr([0.5, 0.1, 0.8])
        self.b0 = arr([0.01, -0.02, 0.005])
        self.nan_data = arr(np.where(rs.rand(n+3, 3) < 0.3, np.nan, 1.0))
        self.seed = seed

    def c(self, name):
        """A fresh copy (same values, same layout) of a bundle array."""
        return self._arr(np.array(getattr(self, name)))


def build_table():
    import ahrs
    from ahrs import Quaternion, QuaternionArray, DCM
    from ahrs.common import orientation as o, quaternion as qm, dcm as dm, frames as fr, mathfuncs as mf
    from ahrs.utils import metrics as M, core
    from ahrs.utils.sensors import Sensors
    from ahrs.filters import (AQUA, AngularRate, Complementary, Davenport, EKF, FAMC, FKF, FLAE, FQA, Fourati, Madgwick, Mahony,
                              OLEQ, QUEST, ROLEQ, SAAM, TRIAD, Tilt, UKF)
    T = []

    def add(name, make, repeat=True, seeded=False):
        T.append((name, make, repeat, seeded))

    # ---- orientation
    add('orientation.q_conj', lambda d: (o.q_conj, [d.c('q')], {}))
    add('orientation.q_conj[N]', lambda d: (o.q_conj, [d.c('Q')], {}))
    add('orientation.q_norm', lambda d: (o.q_norm, [d.c('q')], {}))
    add('orientation.q_norm[N]', lambda d: (o.q_norm, [d.c('Q')], {}))
    add('orientation.q_prod', lambda d: (o.q_prod, [d.c('p'), d.c('q')], {}))
    add('orientation.q_mult_L', lambda d: (o.q_mult_L, [d.c('q')], {}))
    add('orientation.q_mult_R', lambda d: (o.q_mult_R, [d.c('q')], {}))
    add('orientation.q_rot', lambda d: (o.q_rot, [d.c('qu'), d.c('v')], {}))
    add('orientation.axang2quat', lambda d: (o.axang2quat, [d.c('axis'), d.angle], {}))
    add('orientation.axang2quat[deg]', lambda d: (o.axang2quat, [d.c('axis'), 75.0], {'rad': False}))
    add('orientation.quat2axang', lambda d: (o.quat2axang, [d.c('q')], {}))
    add('orientation.q_correct', lambda d: (o.q_correct, [d.c('Qs')], {}))
    add('orientation.q2R', lambda d: (o.q2R, [d.c('q')], {}))
    add('orientation.q2R[v2]', lambda d: (o.q2R, [d.c('q')], {'version': 2}))
    add('orientation.q2R[N]', lambda d: (o.q2R, [d.c('Q')], {}))
    add('orientation.q2euler', lambda d: (o.q2euler, [d.c('qu')], {}))
    add('orientation.dcm2quat', lambda d: (o.dcm2quat, [d.c('R')], {}))
    add('orientation.rpy2q', lambda d: (o.rpy2q, [d.c('ang')], {}))
    add('orientation.rpy2q[deg]', lambda d: (o.rpy2q, [d.c('ang_deg')], {'in_deg': True}))
    add('orientation.cardan2q[deg]', lambda d: (o.cardan2q, [d.c('ang_deg')], {'in_deg': True}))
    add('orientation.q2rpy', lambda d: (o.q2rpy, [d.c('qu')], {}))
    add('orientation.q2rpy[deg]', lambda d: (o.q2rpy, [d.c('qu')], {'in_deg': True}))
    add('orientation.q2cardan', lambda d: (o.q2cardan, [d.c('qu')], {}))
    for rep in ('rotmat', 'quaternion', 'rpy', 'axisangle'):
        add(f'orientation.ecompass[{rep}]', (lambda rep: lambda d: (o.ecompass, [d.c('acc'), d.c('mag')], {'frame': 'NED', 'representation': rep}))(rep))
    add('orientation.am2DCM', lambda d: (o.am2DCM, [d.c('acc'), d.c('mag')], {'frame': 'NED'}))
    add('orientation.am2DCM[ENU]', lambda d: (o.am2DCM, [d.c('acc'), d.c('mag')], {'frame': 'ENU'}))
    add('orientation.am2q', lambda d: (o.am2q, [d.c('acc'), d.c('mag')], {}))
    add('orientation.acc2q', lambda d: (o.acc2q, [d.c('acc')], {}))
    add('orientation.acc2q[euler]', lambda d: (o.acc2q, [d.c('acc')], {'return_euler': True}))
    add('orientation.am2angles', lambda d: (o.am2angles, [d.c('acc'), d.c('mag')], {}))
    add('orientation.am2angles[N,deg]', lambda d: (o.am2angles, [d.c('ACC'), d.c('MAG')], {'in_deg': True}))
    add('orientation.slerp', lambda d: (o.slerp, [d.c('qu'), -oracle.qnormalize(d.c('p')), d.c('t')], {}))
    add('orientation.chiaverini', lambda d: (o.chiaverini, [d.c('R')], {}))
    add('orientation.chiaverini[N]', lambda d: (o.chiaverini, [d.c('RN')], {}))
    add('orientation.hughes', lambda d: (o.hughes, [d.c('R')], {}))
    add('orientation.hughes[N]', lambda d: (o.hughes, [d.c('RN')], {}))
    add('orientation.sarabandi', lambda d: (o.sarabandi, [d.c('R')], {'eta': 0.1}))
    add('orientation.itzhack', lambda d: (o.itzhack, [d.c('R')], {}))
    add('orientation.itzhack[v1]', lambda d: (o.itzhack, [d.c('R')], {'version': 1}))
    add('orientation.shepperd', lambda d: (o.shepperd, [d.c('R')], {}))
    # ---- quaternion module
    add('quaternion.slerp', lambda d: (qm.slerp, [d.c('qu'), -oracle.qnormalize(d.c('p')), d.c('t')], {}))
    add('Quaternion(q)', lambda d: (Quaternion, [d.c('q')], {}))
    add('Quaternion(q,versor=False)', lambda d: (Quaternion, [d.c('q')], {'versor': False}))
    add('Quaternion(v3)', lambda d: (Quaternion, [d.c('v')], {}))
    add('Quaternion(dcm=)', lambda d: (Quaternion, [], {'dcm': d.c('R')}))
    add('Quaternion(dcm=,hughes)', lambda d: (Quaternion, [], {'dcm': d.c('R'), 'method': 'hughes'}))
    add('Quaternion(rpy=)', lambda d: (Quaternion, [], {'rpy': d.c('ang')}))
    add('Quaternion.product', lambda d: (Quaternion(d.c('q')).product, [d.c('p')], {}))
    add('Quaternion.__mul__', lambda d: (Quaternion(d.c('q')).__mul__, [d.c('p')], {}))
    add('Quaternion.__matmul__', lambda d: (Quaternion(d.c('q')).__matmul__, [d.c('p')], {}))
    add('Quaternion.__add__', lambda d: (Quaternion(d.c('q')).__add__, [d.c('p')], {}))
    add('Quaternion.__sub__', lambda d: (Quaternion(d.c('q')).__sub__, [d.c('p')], {}))
    add('Quaternion.__pow__', lambda d: (Quaternion(d.c('q')).__pow__, [0.7], {}))
    add('Quaternion.rotate', lambda d: (Quaternion(d.c('q')).rotate, [d.c('v')], {}))
    add('Quaternion.rotate[3xN]', lambda d: (Quaternion(d.c('q')).rotate, [np.ascontiguousarray(d.c('X').T)], {}))
    add('Quaternion.ode', lambda d: (Quaternion(d.c('q')).ode, [d.c('w')], {}))
    add('Quaternion.from_DCM', lambda d: (Quaternion().from_DCM, [d.c('R')], {}))
    add('Quaternion.from_rpy', lambda d: (Quaternion().from_rpy, [d.c('ang')], {}))
    add('Quaternion.from_angles', lambda d: (Quaternion().from_angles, [d.c('ang')], {}))
    add('QuaternionArray(Q)', lambda d: (QuaternionArray, [d.c('Q')], {}))
    add('QuaternionArray(Q,versors=False)', lambda d: (QuaternionArray, [d.c('Q')], {'versors': False}))
    add('QuaternionArray(rpy=)', lambda d: (QuaternionArray, [], {'rpy': d.c('Ang')}))
    add('QuaternionArray(DCM=)', lambda d: (QuaternionArray, [], {'DCM': d.c('RN')}))
    add('QuaternionArray(DCM=,chiaverini)', lambda d: (QuaternionArray, [], {'DCM': d.c('RN'), 'method': 'chiaverini'}))
    add('QuaternionArray.from_rpy', lambda d: (QuaternionArray().from_rpy, [d.c('Ang')], {}))
    add('QuaternionArray.from_DCM', lambda d: (QuaternionArray().from_DCM, [d.c('RN')], {'inplace': False}))
    add('QuaternionArray.average', lambda d: (QuaternionArray(d.c('Qs')).average, [], {'weights': d._arr(np.linspace(0.5, 1.5, d.n))}))
    add('QuaternionArray.average[span]', lambda d: (QuaternionArray(d.c('Qs')).average, [], {'span': (0, 2)}))
    add('QuaternionArray.rotate_by', lambda d: (QuaternionArray(d.c('Qs')).rotate_by, [d.c('q')], {}))
    add('QuaternionArray.slerp_nan[inplace=False]', lambda d: (QuaternionArray(d.c('Qs')).slerp_nan, [], {'inplace': False}))

    def _with_jumps_and_gap(d):
        A = d.c('Qs')
        A[1::2] *= -1.0                     # every other row in the opposite hemisphere (same rotations)
        Qj = QuaternionArray(A)
        if d.n >= 4:
            Qj[2] = np.nan                  # a one-row gap, set after construction as in the method's own docstring
        return Qj
    add('QuaternionArray.slerp_nan[inplace=False,jumps]', lambda d: (_with_jumps_and_gap(d).slerp_nan, [], {'inplace': False}))
    add('QuaternionArray.to_DCM[jumps]', lambda d: (_with_jumps_and_gap(d).to_DCM, [], {}))
    add('QuaternionArray.angular_velocities[jumps]', lambda d: (_with_jumps_and_gap(d).angular_velocities, [0.01], {}))
    add('QuaternionArray.to_DCM', lambda d: (QuaternionArray(d.c('Qs')).to_DCM, [], {}))
    add('QuaternionArray.angular_velocities', lambda d: (QuaternionArray(d.c('Qs')).angular_velocities, [0.01], {}))
    # ---- dcm module
    add('dcm.rot_seq', lambda d: (dm.rot_seq, [list('zyx'), [float(x) for x in d.ang]], {}))
    add('dcm.rot_seq[deg]', lambda d: (dm.rot_seq, ['xz', [float(x) for x in d.ang_deg[:2]]], {'degrees': True}))
    add('dcm.rotation', lambda d: (dm.rotation, ['y', float(d.ang[0])], {}))
    add('DCM(R)', lambda d: (DCM, [d.c('R')], {}))
    add('DCM(RN)', lambda d: (DCM, [d.c('RN')], {}))
    add('DCM(q=)', lambda d: (DCM, [], {'q': d.c('q')}))
    add('DCM(rpy=)', lambda d: (DCM, [], {'rpy': d.c('ang')}))
    add('DCM(euler=)', lambda d: (DCM, [], {'euler': ('zyz', d.c('ang'))}))
    add('DCM(axang=)', lambda d: (DCM, [], {'axang': (d.c('axis'), d.angle)}))
    add('DCM.ode', lambda d: (DCM(d.c('R')).ode, [d.c('w')], {}))
    add('DCM.from_axisangle', lambda d: (DCM().from_axisangle, [d.c('axis'), d.angle], {}))
    add('DCM.from_quaternion', lambda d: (DCM.from_quaternion, [d.c('q')], {}))
    add('DCM.from_quaternion[N]', lambda d: (DCM.from_quaternion, [d.c('Q')], {}))
    add('DCM.from_q', lambda d: (DCM().from_q, [d.c('q')], {}))
    add('DCM.to_quaternion', lambda d: (DCM(d.c('R')).to_quaternion, [], {'method': 'chiaverini'}))
    add('DCM.log', lambda d: ((lambda R: DCM(R).log), [d.c('R')], {}))
    # ---- frames / mathfuncs
    add('frames.ned2enu', lambda d: (fr.ned2enu, [d.c('v')], {}))
    add('frames.enu2ned[N]', lambda d: (fr.enu2ned, [d.c('X')], {}))
    add('mathfuncs.cosd', lambda d: (mf.cosd, [d.c('ang_deg')], {}))
    add('mathfuncs.sind', lambda d: (mf.sind, [d.c('ang_deg')], {}))
    add('mathfuncs.skew', lambda d: (mf.skew, [d.c('v')], {}))
    # ---- metrics / core
    add('metrics.euclidean', lambda d: (M.euclidean, [d.c('X'), d.c('Y')], {}))
    add('metrics.chordal', lambda d: (M.chordal, [d.c('R'), d.c('R2')], {}))
    add('metrics.chordal[N]', lambda d: (M.chordal, [d.c('RN'), d.c('RN2')], {}))
    add('metrics.identity_deviation', lambda d: (M.identity_deviation, [d.c('R'), d.c('R2')], {}))
    add('metrics.angular_distance', lambda d: (M.angular_distance, [d.c('R'), d.c('R2')], {}))
    for name in ('qdist', 'qeip', 'qcip', 'qad'):
        add(f'metrics.{name}', (lambda name: lambda d: (getattr(M, name), [d.c('q'), d.c('p')], {}))(name))
        add(f'metrics.{name}[N]', (lambda name: lambda d: (getattr(M, name), [d.c('Q'), d.c('Q2')], {}))(name))
    add('metrics.rmse', lambda d: (M.rmse, [d.c('X'), d.c('Y')], {}))
    add('metrics.rmse_matrices', lambda d: (M.rmse_matrices, [d.c('RN'), d.c('RN2')], {}))
    add('core.get_nan_intervals', lambda d: (core.get_nan_intervals, [d.c('nan_data')], {}))
    # ---- sensors (random bias/noise: not repeatable by design)
    add('Sensors(quaternions=)', lambda d: (Sensors, [], {'quaternions': d.c('Qs'), 'reference_gravitational_vector': d.c('acc'),
                                                         'reference_magnetic_vector': d.c('mag')}), repeat=False)
    # ---- single-frame estimators
    add('TRIAD()', lambda d: (TRIAD, [d.c('ACC'), d.c('MAG')], {'v1': d.c('acc'), 'v2': d.c('mag')}))
    add('TRIAD.estimate', lambda d: (TRIAD(v1=d.c('acc'), v2=d.c('mag')).estimate, [d.c('acc'), d.c('mag')], {}))
    add('TRIAD.estimate[quaternion]', lambda d: (TRIAD(v1=d.c('acc'), v2=d.c('mag')).estimate, [d.c('acc'), d.c('mag')], {'representation': 'quaternion'}))
    for cls, kw in ((Davenport, {'magnetic_dip': 60.0}), (QUEST, {'magnetic_dip': 60.0}), (FAMC, {}), (FQA, {}), (SAAM, {}), (Tilt, {}),
                    (FLAE, {'magnetic_dip': 60.0}), (OLEQ, {'magnetic_ref': 30.0})):
        nm = cls.__name__
        seeded = nm == 'OLEQ'
        add(f'{nm}(N)', (lambda cls, kw: lambda d: (cls, [d.c('ACC'), d.c('MAG')], dict(kw)))(cls, kw), seeded=seeded)
        add(f'{nm}.estimate', (lambda cls, kw: lambda d: (cls(**kw).estimate, [d.c('acc'), d.c('mag')], {}))(cls, kw), seeded=seeded)
    add('Davenport(weights=)', lambda d: (Davenport, [d.c('ACC'), d.c('MAG')], {'weights': d.c('weights'), 'magnetic_dip': 60.0}))
    add('QUEST(weights=)', lambda d: (QUEST, [d.c('ACC'), d.c('MAG')], {'weights': d.c('weights'), 'magnetic_dip': 60.0}))
    add('FLAE(weights=)', lambda d: (FLAE, [d.c('ACC'), d.c('MAG')], {'weights': d.c('weights'), 'magnetic_dip': 60.0}))
    add('FLAE(eig)', lambda d: (FLAE, [d.c('ACC'), d.c('MAG')], {'method': 'eig'}))
    add('FLAE(newton)', lambda d: (FLAE, [d.c('ACC'), d.c('MAG')], {'method': 'newton'}))
    add('OLEQ(weights=)', lambda d: (OLEQ, [d.c('ACC'), d.c('MAG')], {'weights': d.c('weights'), 'magnetic_ref': d.c('mref')}), seeded=True)
    add('FQA(mag_ref=)', lambda d: (FQA, [d.c('ACC'), d.c('MAG')], {'mag_ref': d.c('mref')}))
    add('Tilt(acc)', lambda d: (Tilt, [d.c('ACC')], {}))
    add('Tilt(angles)', lambda d: (Tilt, [d.c('ACC'), d.c('MAG')], {'representation': 'angles'}))
    add('SAAM(rotmat)', lambda d: (SAAM, [d.c('ACC'), d.c('MAG')], {'representation': 'rotmat'}))
    add('AQUA(acc,mag)', lambda d: (AQUA, [d.c('ACC'), d.c('MAG')], {}))
    add('AQUA.estimate', lambda d: (AQUA().estimate, [d.c('acc'), d.c('mag')], {}))
    add('AQUA.estimate[acc]', lambda d: (AQUA().estimate, [d.c('acc')], {}))
    # ---- recursive filters: constructors and update methods
    add('AQUA(gyr,acc,mag)', lambda d: (AQUA, [d.c('ACC'), d.c('MAG'), d.c('GYR')], {'q0': d.c('qu')}))
    add('AQUA.updateIMU', lambda d: (AQUA().updateIMU, [d.c('qu'), d.c('gyr'), d.c('acc')], {}))
    add('AQUA.updateMARG', lambda d: (AQUA().updateMARG, [d.c('qu'), d.c('gyr'), d.c('acc'), d.c('mag')], {}))
    add('AQUA.updateMARG[adaptive]', lambda d: (AQUA(adaptive=True).updateMARG, [d.c('qu'), d.c('gyr'), d.c('acc'), d.c('mag')], {}))
    add('AQUA.updateIMU[adaptive]', lambda d: (AQUA(adaptive=True).updateIMU, [d.c('qu'), d.c('gyr'), d.c('acc')], {}))
    add('AngularRate(gyr)', lambda d: (AngularRate, [d.c('GYR')], {'q0': d.c('q')}))
    add('AngularRate(series)', lambda d: (AngularRate, [d.c('GYR')], {'q0': d.c('q'), 'method': 'series', 'order': 3}))
    add('AngularRate.update', lambda d: (AngularRate().update, [d.c('qu'), d.c('gyr')], {}))
    add('AngularRate.integrate_angular_positions', lambda d: (AngularRate().integrate_angular_positions, [d.c('GYR'), 0.01], {}))
    add('Complementary(IMU)', lambda d: (Complementary, [d.c('GYR'), d.c('ACC')], {'w0': d.c('ang')}))
    add('Complementary(MARG)', lambda d: (Complementary, [d.c('GYR'), d.c('ACC'), d.c('MAG')], {}))
    add('Complementary.am_estimation', lambda d: (Complementary().am_estimation, [d.c('ACC'), d.c('MAG')], {}))
    add('Complementary.am_estimation[1]', lambda d: (Complementary().am_estimation, [d.c('acc'), d.c('mag')], {}))
    add('EKF(IMU)', lambda d: (EKF, [d.c('GYR'), d.c('ACC')], {'q0': d.c('qu'), 'P': d.c('P4'), 'noises': d.c('noises'), 'magnetic_ref': 60.0}))
    add('EKF(MARG)', lambda d: (EKF, [d.c('GYR'), d.c('ACC'), d.c('MAG')], {'magnetic_ref': d.c('mref'), 'frame': 'ENU'}))
    add('EKF.update', lambda d: (EKF(magnetic_ref=60.0).update, [d.c('qu'), d.c('gyr'), d.c('acc')], {}))
    add('EKF.update[mag]', lambda d: (EKF(magnetic_ref=60.0).update, [d.c('qu'), d.c('gyr'), d.c('acc'), d.c('mag')], {}))
    add('EKF.f', lambda d: (EKF(magnetic_ref=60.0).f, [d.c('qu'), d.c('gyr'), 0.01], {}))
    add('EKF.h', lambda d: (EKF(magnetic_ref=60.0).h, [d.c('qu')], {}))
    add('EKF.dhdq', lambda d: (EKF(magnetic_ref=60.0).dhdq, [d.c('qu')], {}))
    add('EKF.dfdq', lambda d: (EKF(magnetic_ref=60.0).dfdq, [d.c('gyr'), 0.01], {}))
    add('FKF()', lambda d: (FKF, [d.c('GYR'), d.c('ACC'), d.c('MAG')], {}))
    add('FKF.measurement_quaternion_acc_mag', lambda d: (FKF().measurement_quaternion_acc_mag, [d.c('qu'), d.c('acc'), d.c('mag')], {}))
    add('Fourati()', lambda d: (Fourati, [d.c('GYR'), d.c('ACC'), d.c('MAG')], {'magnetic_dip': 60.0}))
    add('Fourati.update', lambda d: (Fourati(magnetic_dip=60.0).update, [d.c('qu'), d.c('gyr'), d.c('acc'), d.c('mag')], {}))
    add('Madgwick(IMU)', lambda d: (Madgwick, [d.c('GYR'), d.c('ACC')], {'q0': d.c('q')}))
    add('Madgwick(MARG)', lambda d: (Madgwick, [d.c('GYR'), d.c('ACC'), d.c('MAG')], {}))
    add('Madgwick.updateIMU', lambda d: (Madgwick().updateIMU, [d.c('qu'), d.c('gyr'), d.c('acc')], {}))
    add('Madgwick.updateMARG', lambda d: (Madgwick().updateMARG, [d.c('qu'), d.c('gyr'), d.c('acc'), d.c('mag')], {}))
    add('Mahony(IMU)', lambda d: (Mahony, [d.c('GYR'), d.c('ACC')], {'q0': d.c('qu'), 'b0': d.c('b0')}))
    add('Mahony(MARG)', lambda d: (Mahony, [d.c('GYR'), d.c('ACC'), d.c('MAG')], {}))
    add('Mahony.updateIMU', lambda d: (Mahony().updateIMU, [d.c('qu'), d.c('gyr'), d.c('acc')], {}))
    add('Mahony.updateMARG', lambda d: (Mahony().updateMARG, [d.c('qu'), d.c('gyr'), d.c('acc'), d.c('mag')], {}))
    add('ROLEQ()', lambda d: (ROLEQ, [d.c('GYR'), d.c('ACC'), d.c('MAG')], {'weights': d.c('weights'), 'magnetic_ref': d.c('mref'), 'q0': d.c('qu')}), seeded=True)
    add('ROLEQ.update', lambda d: (ROLEQ(magnetic_ref=30.0).update, [d.c('qu'), d.c('gyr'), d.c('acc'), d.c('mag')], {}))
    add('ROLEQ.attitude_propagation', lambda d: (ROLEQ(magnetic_ref=30.0).attitude_propagation, [d.c('qu'), d.c('gyr'), 0.01], {}))
    add('ROLEQ.oleq', lambda d: (ROLEQ(magnetic_ref=30.0).oleq, [d.c('acc'), d.c('mag'), d.c('qu')], {}))
    add('UKF()', lambda d: (UKF, [d.c('GYR'), d.c('ACC')], {'q0': d.c('qu')}))
    add('UKF.update', lambda d: (UKF().update, [d.c('qu'), d.c('gyr'), d.c('acc')], {}))
    add('UKF(P=)', lambda d: (UKF, [d.c('GYR'), d.c('ACC')], {'P': d.c('P4s'), 'process_noise_covariance': d.c('Q4'),
                                                               'measurement_noise_covariance': d.c('R3')}))

    # ---- constructor first, method afterwards: the arrays handed to the constructor are still the caller's when the method runs
    def held(name, cls, ckw, method, margs, seeded=False, cargs=()):
        def make(d):
            kw = {k: (d.c(v) if isinstance(v, str) and hasattr(d, v) else v) for k, v in ckw.items()}
            obj = cls(*[d.c(a) for a in cargs], **kw)
            return getattr(obj, method), [d.c(a) if isinstance(a, str) else a for a in margs], {}, kw
        add(name, make, seeded=seeded)
    held('UKF(P=).update', UKF, {'P': 'P4s', 'process_noise_covariance': 'Q4', 'measurement_noise_covariance': 'R3', 'q0': 'qu'}, 'update', ['qu', 'gyr', 'acc'])
    held('EKF(P=).update', EKF, {'P': 'P4', 'noises': 'noises', 'magnetic_ref': 'mref', 'q0': 'qu'}, 'update', ['qu', 'gyr', 'acc', 'mag'])
    held('EKF(P=).update[imu]', EKF, {'P': 'P4', 'noises': 'noises', 'magnetic_ref': 60.0}, 'update', ['qu', 'gyr', 'acc'])
    held('Mahony(b0=).updateIMU', Mahony, {'b0': 'b0', 'q0': 'qu'}, 'updateIMU', ['qu', 'gyr', 'acc'])
    held('Mahony(b0=).updateMARG', Mahony, {'b0': 'b0', 'q0': 'qu'}, 'updateMARG', ['qu', 'gyr', 'acc', 'mag'])
    held('Madgwick(q0=).updateMARG', Madgwick, {'q0': 'qu'}, 'updateMARG', ['qu', 'gyr', 'acc', 'mag'])
    held('AQUA(q0=).updateMARG', AQUA, {'q0': 'qu', 'adaptive': True}, 'updateMARG', ['qu', 'gyr', 'acc', 'mag'])
    held('ROLEQ(weights=).update', ROLEQ, {'weights': 'weights', 'magnetic_ref': 'mref', 'q0': 'qu'}, 'update', ['qu', 'gyr', 'acc', 'mag'], seeded=True)
    held('OLEQ(weights=).estimate', OLEQ, {'weights': 'weights', 'magnetic_ref': 'mref'}, 'estimate', ['acc', 'mag'], seeded=True)
    held('QUEST(weights=).estimate', QUEST, {'weights': 'weights', 'magnetic_dip': 60.0}, 'estimate', ['acc', 'mag'])
    held('Davenport(weights=).estimate', Davenport, {'weights': 'weights', 'magnetic_dip': 60.0}, 'estimate', ['acc', 'mag'])
    held('FLAE(weights=).estimate', FLAE, {'weights': 'weights', 'magnetic_dip': 60.0}, 'estimate', ['acc', 'mag'])
    held('FQA(mag_ref=).estimate', FQA, {'mag_ref': 'mref'}, 'estimate', ['acc', 'mag'])
    held('TRIAD(v1=,v2=).estimate', TRIAD, {'v1': 'v', 'v2': 'mref'}, 'estimate', ['acc', 'mag'])
    held('Fourati(q0=).update', Fourati, {'q0': 'qu', 'magnetic_dip': 60.0}, 'update', ['qu', 'gyr', 'acc', 'mag'])
    held('Complementary(data).am_estimation', Complementary, {}, 'am_estimation', ['ACC', 'MAG'], cargs=('GYR', 'ACC', 'MAG'))
    return T


# public names that are deliberately not in the table, each with the reason
EXEMPT = {
    'orientation.q_random': 'random generator, no array argument',
    'quaternion.random_attitudes': 'random generator, no array argument',
    'frames.*scalar': 'aer2enu, dca2enu, ecef2enu, ecef2enuv, ecef2geodetic, ecef2lla, ecef2llf, eci2ecef, enu2aer, enu2dca, enu2ecef, enu2uvw, geodetic2ecef, geodetic2enu, llf2ecef take scalars',
}
SCALAR_FRAMES = {'aer2enu', 'dca2enu', 'ecef2enu', 'ecef2enuv', 'ecef2geodetic', 'ecef2lla', 'ecef2llf', 'eci2ecef', 'enu2aer', 'enu2dca',
                 'enu2ecef', 'enu2uvw', 'geodetic2ecef', 'geodetic2enu', 'llf2ecef'}
METHOD_EXEMPT = {
    # no array parameter, or explicit in-place / random operations
    'Quaternion': {'is_identity', 'is_pure', 'is_real', 'is_versor', 'mult_L', 'mult_R', 'normalize', 'random', 'to_DCM', 'to_angles',
                   'to_array', 'to_axang', 'to_list'},
    'QuaternionArray': {'conj', 'conjugate', 'is_identity', 'is_pure', 'is_real', 'is_versor', 'remove_jumps', 'to_angles', 'to_array'},
    'DCM': {'from_axang', 'to_angles', 'to_axang', 'to_axisangle', 'to_q', 'to_rpy'},
}
FILTER_METHOD_EXEMPT = {'Omega', 'Omega4', 'init_q', 'WW', 'kalman_update', 'compute_sigma_points', 'set_weights'}

_TABLE = None


def table():
    global _TABLE
    if _TABLE is None:
        _TABLE = build_table()
    return _TABLE


def _case(tier):
    return st.fixed_dictionaries({'seed': st.integers(0, 2**31-1), 'n': st.integers(2, 6), 'view': st.booleans()})


def _arrays(obj, out, path='arg'):
    if isinstance(obj, np.ndarray):
        out.append((path, obj))
    elif isinstance(obj, (list, tuple)):
        for i, x in enumerate(obj):
            _arrays(x, out, f'{path}[{i}]')
    elif isinstance(obj, dict):
        for k, x in obj.items():
            _arrays(x, out, f'{path}.{k}')


def _result_arrays(r, out, depth=0):
    if isinstance(r, np.ndarray):
        out.append(r)
    elif isinstance(r, (list, tuple)) and depth < 3:
        for x in r:
            _result_arrays(x, out, depth+1)
    elif hasattr(r, '__dict__') and depth < 1 and not isinstance(r, type):
        # constructed objects: the arrays they keep must not be the caller's
        for v in vars(r).values():
            _result_arrays(v, out, depth+1)


# filters without carried state (Mahony keeps a bias, EKF / UKF / FKF a covariance: those are compared on fresh instances only)
STATELESS_METHODS = {'AQUA.updateIMU', 'AQUA.updateMARG', 'AQUA.updateMARG[adaptive]', 'AQUA.updateIMU[adaptive]', 'AQUA.estimate', 'AQUA.estimate[acc]',
                     'Madgwick.updateIMU', 'Madgwick.updateMARG', 'AngularRate.update', 'Fourati.update', 'ROLEQ.attitude_propagation',
                     'Complementary.am_estimation', 'Complementary.am_estimation[1]', 'EKF.f', 'EKF.h', 'EKF.dhdq', 'EKF.dfdq',
                     'FKF.measurement_quaternion_acc_mag', 'TRIAD.estimate', 'Davenport.estimate', 'QUEST.estimate', 'FLAE.estimate',
                     'SAAM.estimate', 'FAMC.estimate', 'FQA.estimate', 'Tilt.estimate'}
INPLACE_METHODS = {'normalize', 'remove_jumps'}      # explicit in-place operations by name; others announce it with inplace=True


def _receiver_bytes(obj):
    out = [np.ascontiguousarray(np.asarray(obj)).tobytes()]
    for attr in ('A', 'array'):
        v = getattr(obj, attr, None)
        if isinstance(v, np.ndarray):
            out.append(np.ascontiguousarray(v).tobytes())
    return out


def _flatten(r):
    """Comparable byte representation of a result (arrays, tuples, scalars, objects with a Q/W/A/R attribute)."""
    if isinstance(r, np.ndarray):
        return [np.ascontiguousarray(r).tobytes(), str(r.shape)]
    if isinstance(r, (list, tuple)):
        return [_flatten(x) for x in r]
    if isinstance(r, (int, float, complex, str, bool, np.generic)) or r is None:
        return [repr(r)]
    out = []
    for attr in ('Q', 'W', 'A', 'R', 'angles', 'array'):
        if hasattr(r, attr):
            try:
                v = getattr(r, attr)
            except Exception:
                continue
            if isinstance(v, np.ndarray):
                out.append((attr, np.ascontiguousarray(np.asarray(v)).tobytes()))
    return out


def evaluate(case, ctx):
    seed, n, view = int(case['seed']), int(case['n']), bool(case['view'])
    ctx.nt(True)
    T = table()
    ctx.label('entries>=140' if len(T) >= 140 else f'entries={len(T)}')
    for name, make, repeat, seeded in T:
        d = D(seed, n, view)
        made = make(d)
        fn, args, kw = made[:3]
        arrs = []
        _arrays(args, arrs)
        _arrays(kw, arrs, 'kw')
        if len(made) > 3:
            _arrays(made[3], arrs, 'ctor_kw')      # arrays the caller gave to the constructor of the object whose method is called
        before = [(p, a.tobytes(), a) for p, a in arrs]
        # methods of the value classes: the receiver is itself an array handed over by the caller; unless the call is an explicit
        # in-place request it must be left as it was, and a second identical call ON THE SAME OBJECT must return the same
        recv = getattr(fn, '__self__', None)
        watch_recv = isinstance(recv, np.ndarray) and not kw.get('inplace', False) and name.split('.')[-1].split('[')[0] not in INPLACE_METHODS
        recv_before = _receiver_bytes(recv) if watch_recv else None
        np.random.seed(seed % (2**31))
        try:
            r1 = fn(*args, **kw)
            e1 = None
        except Exception as e:
            r1, e1 = None, e
        for p, b, a in before:
            if a.tobytes() != b:
                ctx.fail(f'{name}|mutates_argument|{p.split("[")[0].split(".")[0]}', f'{name}: {p} changed by the call')
        if name in STATELESS_METHODS and e1 is None and repeat:
            # update / estimate methods of filters that carry no state between calls (everything they need is in their arguments and in
            # the constructor's settings): the same call on the SAME object must give the same result again
            ctx.label('stateless_method_repeated_on_same_object')
            np.random.seed(seed % (2**31))
            try:
                r1c, e1c = fn(*[np.array(a) if isinstance(a, np.ndarray) else a for a in args], **kw), None
            except Exception as e:
                r1c, e1c = None, e
            if e1c is not None or _flatten(r1c) != _flatten(r1):
                ctx.fail(f'{name}|not_repeatable_on_same_object', f'{name}: second identical call on the same object '
                         + (f'raised {type(e1c).__name__}' if e1c is not None else 'returned something else'))
        if watch_recv:
            ctx.label('receiver_watched')
            if _receiver_bytes(recv) != recv_before:
                ctx.fail(f'{name}|mutates_receiver', f'{name}: the object the method was called on changed (not an in-place request)')
            elif e1 is None and repeat:
                np.random.seed(seed % (2**31))
                try:
                    r1b, e1b = fn(*[np.array(a) if isinstance(a, np.ndarray) else a for a in args], **kw), None
                except Exception as e:
                    r1b, e1b = None, e
                if e1b is not None or _flatten(r1b) != _flatten(r1):
                    ctx.fail(f'{name}|not_repeatable_on_same_object', f'{name}: second identical call on the same object '
                             + (f'raised {type(e1b).__name__}' if e1b is not None else 'returned something else'))
        if not repeat:
            continue
        d2 = D(seed, n, view)
        fn2, args2, kw2 = make(d2)[:3]
        np.random.seed(seed % (2**31))
        try:
            r2 = fn2(*args2, **kw2)
            e2 = None
        except Exception as e:
            r2, e2 = None, e
        if (e1 is None) != (e2 is None) or (e1 is not None and type(e1) is not type(e2)):
            ctx.fail(f'{name}|not_repeatable|exception', f'first call: {type(e1).__name__ if e1 else "ok"}, second: {type(e2).__name__ if e2 else "ok"}')
        elif e1 is None and _flatten(r1) != _flatten(r2):
            ctx.fail(f'{name}|not_repeatable', f'{name}: two calls with identical arguments differ')
        if e1 is not None:
            ctx.label(f'raises:{name}')


def selftest():
    """Every public callable discovered by inspect must be in the table or exempted with a reason."""
    import importlib
    names = {n for n, *_ in table()}
    base = lambda s: s.split('[')[0].split('(')[0]
    have = {base(n) for n in names}
    missing = []
    for modname, prefix in (('ahrs.common.orientation', 'orientation'), ('ahrs.common.quaternion', 'quaternion'), ('ahrs.common.dcm', 'dcm'),
                            ('ahrs.common.frames', 'frames'), ('ahrs.common.mathfuncs', 'mathfuncs'), ('ahrs.utils.metrics', 'metrics'),
                            ('ahrs.utils.core', 'core')):
        mod = importlib.import_module(modname)
        for n, o in inspect.getmembers(mod, inspect.isfunction):
            if o.__module__ != modname or n.startswith('_'):
                continue
            key = f'{prefix}.{n}'
            if key in have or key in EXEMPT or (prefix == 'frames' and n in SCALAR_FRAMES):
                continue
            missing.append(key)
    from ahrs import Quaternion, QuaternionArray, DCM
    for cls in (Quaternion, QuaternionArray, DCM):
        for n, o in inspect.getmembers(cls):
            if n.startswith('_') or n not in cls.__dict__ or not (inspect.isfunction(o) or inspect.ismethod(o)):
                continue
            if f'{cls.__name__}.{n}' in have or n in METHOD_EXEMPT[cls.__name__]:
                continue
            missing.append(f'{cls.__name__}.{n}')
    import ahrs.filters as Fm
    for cn, cls in inspect.getmembers(Fm, inspect.isclass):
        if not any(h == cn or h.startswith(cn + '.') for h in have):
            missing.append(f'{cn}()')
        for n, o in inspect.getmembers(cls):
            if n.startswith('_') or n not in cls.__dict__ or not inspect.isfunction(o):
                continue
            if f'{cn}.{n}' in have or n in FILTER_METHOD_EXEMPT:
                continue
            missing.append(f'{cn}.{n}')
    if missing:
        raise HarnessError(f'public callables missing from the C19 table: {missing}')
    oracle.selftest()


SUBCHECKS = {'calls': Sub(_case, evaluate, quick=1000, thorough=30000, budget_quick=90.0)}
