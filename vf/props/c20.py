"""C20 — synthetic sensor data agree with their own ground truth."""
from __future__ import annotations

import math
import numpy as np
from hypothesis import strategies as st

from vf.core import Sub
from vf import gen, oracle

PROPERTY = 'C20'
LEVEL = 'exploration'
RULE = ('Constructions of ahrs.Sensors: (a) random trajectories with num_samples in 10..300, frequency in {10..1000} Hz, span, '
        'optional fixed yaw, in_degrees, normalized_mag, each noise level either 0, the default, or a drawn positive value, '
        'default or custom reference vectors; (b) given quaternion trajectories (own smooth generator, steps <= 5 deg, length '
        '10..200, sign-continuous). Oracle: rotations = own q->R of quaternions (1e-12); QuaternionArray(rpy=ang_pos) is '
        'the same attitude (|pitch| < pi/2-1e-3); accelerometers/magnetometers rows equal R_i^T ref (or its normalisation) to 1e-9 '
        'relative when the noise is 0 and within 7.5 sigma otherwise; with gyro noise 0 the residual gyroscopes - ang_vel*unit is '
        'constant in time and equals biases_gyroscopes, and closed-form integration of the bias-corrected gyroscopes from '
        'quaternions[0] reproduces the trajectory within sum(theta^3)/24 + 1e-9; the *_noise attributes equal the request. '
        'Non-trivial: num_samples >= 50 and not all defaults; distinct = case hash.')
ASSUMPTIONS = ['the 7.5-sigma noise bound is exceeded with probability < 1e-13 per component',
               'integration is only judged when every step of the trajectory is below 0.5 rad (first-order recovery 2 sin(theta/2) vs theta)']
REQUIRED_LABELS = ['sensors:route=random', 'sensors:route=given', 'sensors:mag_noise=zero', 'sensors:gyr_noise=zero', 'sensors:in_degrees']


def _noise(scale):
    return st.one_of(st.just(('zero', 0.0)), st.just(('default', None)),
                     st.tuples(st.just('drawn'), gen.log_uniform(-4, 0).map(lambda x: x*scale)))


def _case():
    @st.composite
    def build(draw):
        route = draw(st.sampled_from(['random', 'given']))
        c = {'route': route, 'freq': draw(st.sampled_from([10.0, 50.0, 100.0, 200.0, 1000.0, 33.3])),
             'in_degrees': draw(st.booleans()), 'normalized_mag': draw(st.booleans()),
             'gyr_noise': draw(_noise(10.0)), 'acc_noise': draw(_noise(1.0)), 'mag_noise': draw(_noise(1000.0)),
             'custom_refs': draw(st.booleans()),
             'g_ref': draw(gen.vectors3(-1, 2)), 'm_ref': draw(gen.vectors3(-1, 5))}
        if route == 'random':
            c['num_samples'] = draw(st.one_of(st.integers(10, 300), st.sampled_from([10, 50, 51, 300])))
            c['span'] = draw(st.one_of(st.none(), st.tuples(gen.fl(-3.0, -0.1), gen.fl(0.1, 3.0))))
            c['yaw'] = draw(st.one_of(st.none(), gen.fl(-180.0, 180.0)))
        else:
            c['seq'] = {'seed': draw(st.integers(0, 2**31-1)), 'n': draw(st.integers(10, 200)), 'max_step_deg': 5.0}
            c['flips'] = False      # sign-flipped rows are not a bounded-rate quaternion sequence (documented differencing formula)
        return c
    return build()


def evaluate(case, ctx):
    from ahrs.utils.sensors import Sensors
    from ahrs import QuaternionArray
    from ahrs.filters import AngularRate
    from vf.props.c12 import make_sequence
    route = case['route']
    ctx.label(f'route={route}')
    kw = {'in_degrees': bool(case['in_degrees']), 'normalized_mag': bool(case['normalized_mag'])}
    req = {}
    for name in ('gyr_noise', 'acc_noise', 'mag_noise'):
        kind, val = case[name]
        if kind != 'default':
            kw[name] = float(val)
            req[name] = float(val)
        ctx.label(f'{name}={kind}')
    if case['in_degrees']:
        ctx.label('in_degrees')
    g_ref = m_ref = None
    if case['custom_refs']:
        g_ref = np.array(case['g_ref'], dtype=float)
        m_ref = np.array(case['m_ref'], dtype=float)
        kw['reference_gravitational_vector'] = np.array(g_ref)
        kw['reference_magnetic_vector'] = np.array(m_ref)
    freq = float(case['freq'])
    if route == 'random':
        n = int(case['num_samples'])
        if case.get('span') is not None:
            kw['span'] = tuple(float(x) for x in case['span'])
        if case.get('yaw') is not None:
            kw['yaw'] = float(case['yaw'])
        ok, S = ctx.call('Sensors(random)', lambda: Sensors(num_samples=n, freq=freq, **kw))
    else:
        seq = make_sequence(case['seq']['seed'], case['seq']['n'], case['seq']['max_step_deg'])
        if case.get('flips'):
            seq = seq*np.where(np.arange(len(seq)) % 7 == 3, -1.0, 1.0)[:, None]
        n = len(seq)
        ok, S = ctx.call('Sensors(quaternions)', lambda: Sensors(quaternions=np.array(seq), freq=freq, **kw))
    if not ok:
        return
    ctx.nt(n >= 50 and (bool(req) or case['custom_refs'] or case['in_degrees'] or case['normalized_mag']))
    Q = np.array(np.asarray(S.quaternions), dtype=float)
    R = np.asarray(S.rotations, dtype=float)
    if Q.shape != (n, 4) or R.shape != (n, 3, 3):
        ctx.fail('shapes', f'quaternions {Q.shape} rotations {R.shape} for {n} samples')
        return
    for nm in ('gyroscopes', 'accelerometers', 'magnetometers', 'ang_pos', 'ang_vel'):
        a = np.asarray(getattr(S, nm))
        if a.shape != (n, 3) or not np.all(np.isfinite(a)):
            ctx.fail(f'{nm}|shape_or_nonfinite', f'{a.shape}')
            return
    if route == 'given':
        # the object must describe the given trajectory (up to the sign of each quaternion)
        d = np.abs(np.sum(Q*seq/np.linalg.norm(seq, axis=1)[:, None], axis=1))
        if np.any(d < 1 - 1e-12):
            ctx.fail('quaternions|not_the_given_trajectory', f'min |dot| {d.min()!r}')
    # rotations <-> quaternions <-> angular positions
    Rref = np.array([oracle.q2R(q) for q in Q])
    e = float(np.max(np.abs(R - Rref)))
    if e > 1e-12:
        ctx.fail('rotations|differ_from_quaternions', f'{e:.3e}')
    ang = np.asarray(S.ang_pos, dtype=float)
    for i in range(n):
        if abs(ang[i, 1]) < math.pi/2 - 1e-3 and np.all(np.abs(ang[i]) <= 2*math.pi):
            Ra = oracle.q2R(oracle.rpy2q(*ang[i]))
            if float(np.max(np.abs(Ra - Rref[i]))) > 1e-7:
                ctx.fail('ang_pos|differ_from_quaternions', f'row {i}: {np.max(np.abs(Ra - Rref[i])):.3e}')
                break
    # reference vectors actually in use
    from ahrs.utils import sensors as smod
    g_used = np.array(g_ref if g_ref is not None else smod.REFERENCE_GRAVITY_VECTOR, dtype=float)
    m_used = np.array(m_ref if m_ref is not None else smod.REFERENCE_MAGNETIC_VECTOR, dtype=float)
    # noise attributes are the ones requested
    for name, val in req.items():
        got = np.asarray(getattr(S, name), dtype=float)
        if got.shape != () or float(got) != val:
            ctx.fail(f'{name}|attribute_differs_from_request', f'requested {val!r}, object reports {getattr(S, name)!r}')
    # accelerometers / magnetometers
    for nm, ref, sig_name, normalised in (('accelerometers', g_used, 'acc_noise', False),
                                          ('magnetometers', m_used, 'mag_noise', bool(case['normalized_mag']))):
        data = np.asarray(getattr(S, nm), dtype=float)
        ideal = np.array([Rref[i].T @ ref for i in range(n)])
        sigma = float(np.max(np.asarray(getattr(S, sig_name), dtype=float)))
        requested = req.get(sig_name)
        scale = float(np.linalg.norm(ref))
        if requested == 0.0:
            target = ideal/np.linalg.norm(ideal, axis=1)[:, None] if normalised else ideal
            err = float(np.max(np.abs(data - target)))
            if err > 1e-9*(1.0 if normalised else scale):
                ctx.fail(f'{nm}|not_exact_with_zero_noise', f'max deviation {err:.3e} (|ref|={scale:.3e}, reported {sig_name}={getattr(S, sig_name)!r})')
        else:
            if normalised:
                # direction error of a normalised noisy vector is bounded by the relative noise
                target = ideal/np.linalg.norm(ideal, axis=1)[:, None]
                bound = 7.5*sigma*math.sqrt(3)/max(scale - 7.5*sigma*math.sqrt(3), 1e-300) if scale > 7.5*sigma*math.sqrt(3) else 2.0
                err = float(np.max(np.linalg.norm(data - target, axis=1)))
                if err > min(2.0, 1.5*bound) + 1e-9:
                    ctx.fail(f'{nm}|outside_noise_bound', f'deviation {err:.3e} bound {bound:.3e} sigma {sigma:.3e}')
                if float(np.max(np.abs(np.linalg.norm(data, axis=1) - 1))) > 1e-12:
                    ctx.fail(f'{nm}|normalized_mag_not_unit', '')
            else:
                err = float(np.max(np.abs(data - ideal)))
                if err > 7.5*sigma + 1e-9*scale:
                    ctx.fail(f'{nm}|outside_noise_bound', f'deviation {err:.3e} > 7.5 sigma = {7.5*sigma:.3e}')
    # gyroscopes
    unit = 1.0 if not case['in_degrees'] else math.degrees(1.0)
    gyr = np.asarray(S.gyroscopes, dtype=float)
    bias = np.asarray(S.biases_gyroscopes, dtype=float)
    angvel = np.asarray(S.ang_vel, dtype=float)
    if bias.shape != (3,) or not np.all(np.isfinite(bias)):
        ctx.fail('biases_gyroscopes|bad', f'{bias!r}')
        return
    if req.get('gyr_noise') == 0.0:
        ctx.label('gyr_noise=zero')
        resid = gyr - angvel*unit
        sc = max(1.0, float(np.max(np.abs(gyr))))
        if float(np.max(np.abs(resid - resid[0]))) > 1e-9*sc:
            ctx.fail('gyroscopes|residual_not_constant', f'{np.max(np.abs(resid - resid[0])):.3e}')
        elif float(np.max(np.abs(resid[0] - bias))) > 1e-9*sc:
            ctx.fail('gyroscopes|reported_bias_is_not_the_applied_bias', f'applied {resid[0].tolist()} reported {bias.tolist()}')
        thetas = np.array([oracle.qangle(Q[i], Q[i+1]) for i in range(n-1)])
        if thetas.size and float(thetas.max()) <= 0.5:
            w = (gyr - bias)/unit
            ok, A = ctx.call('AngularRate', lambda: AngularRate(gyr=np.array(w), q0=np.array(Q[0]), frequency=freq, method='closed'))
            if ok:
                P = np.asarray(A.Q, dtype=float)
                bound = 1e-9
                for i in range(1, n):
                    bound += thetas[i-1]**3/24 + 1e-12
                    err = oracle.qangle(P[i], Q[i])
                    if err > bound:
                        ctx.fail('gyroscopes|integration_does_not_reproduce_trajectory', f'row {i}: {err:.3e} > {bound:.3e}')
                        break
        else:
            ctx.label('integration_skipped_large_steps')


def selftest():
    oracle.selftest()


SUBCHECKS = {'sensors': Sub(lambda tier: _case(), evaluate, quick=8000, thorough=120000)}
