"""CLI:  python -m vf.runner C01 [--tier quick|thorough] [--replay file] [--seed N] [--sub name]"""
import argparse
import os
import sys


def main(argv=None):
    ap = argparse.ArgumentParser()
    ap.add_argument('property')
    ap.add_argument('--tier', default=os.environ.get('VERIF_TIER', 'quick'), choices=['quick', 'thorough'])
    ap.add_argument('--seed', type=int, default=None)
    ap.add_argument('--replay', default=None)
    ap.add_argument('--sub', default=None, help='run only one sub-check (no evidence written)')
    a = ap.parse_args(argv)
    seed = a.seed
    if seed is None:
        try:
            seed = int(os.environ.get('VERIF_SEED', '1'))
        except ValueError:
            seed = 1
    prop = a.property.upper()
    from vf import core
    try:
        if a.replay:
            rec, ctx = core.replay_file(prop, a.replay)
            hit = [f for f in ctx.findings if f.bucket == rec.get('bucket')] or ctx.findings
            known = core.load_known(prop)
            new = [f for f in hit if core.match_known(f.bucket, known) is None]
            for f in hit:
                print(f'  {f.bucket}: {f.msg}')
            if new:
                print(f'VIOLATION property={prop} replay={a.replay}')
                return 1
            print(f'{prop}: replay {a.replay} does not violate the property on this tree')
            return 0
        return core.run_property(prop, a.tier, seed, a.sub)
    except core.HarnessError as e:
        print(f'HARNESS-ERROR property={prop}: {e}', file=sys.stderr)
        return 2
    except Exception as e:  # anything unexpected is the harness's fault, not a violation
        import traceback
        traceback.print_exc()
        print(f'HARNESS-ERROR property={prop}: {type(e).__name__}: {e}', file=sys.stderr)
        return 2


if __name__ == '__main__':
    sys.exit(main())
