"""Independent degree-12 Schmidt semi-normalised spherical-harmonic synthesis of the shipped WMM coefficient
files.  No ahrs code is used: the COF files are parsed here, the associated Legendre functions come from explicit
polynomial coefficients (exact Fractions), and the pole is handled analytically (P_n^m / cos is a polynomial
times cos^(m-1))."""
from __future__ import annotations

import math
import os
from fractions import Fraction
from functools import lru_cache

A_KM = 6378.137
B_KM = 6356.7523142
RE_KM = 6371.2
NMAX = 12


@lru_cache(maxsize=None)
def legendre_poly(n: int):
    """Coefficients (ascending powers) of the Legendre polynomial P_n, exact."""
    if n == 0:
        return (Fraction(1),)
    if n == 1:
        return (Fraction(0), Fraction(1))
    a = legendre_poly(n-1)
    b = legendre_poly(n-2)
    out = [Fraction(0)]*(n+1)
    for i, c in enumerate(a):            # (2n-1) x P_{n-1}
        out[i+1] += Fraction(2*n-1, n)*c
    for i, c in enumerate(b):            # -(n-1) P_{n-2}
        out[i] -= Fraction(n-1, n)*c
    return tuple(out)


def _deriv(p):
    return tuple(Fraction(i)*c for i, c in enumerate(p))[1:] or (Fraction(0),)


@lru_cache(maxsize=None)
def q_poly(n: int, m: int):
    """Q_n^m = d^m P_n / dx^m and its derivative, as float coefficient tuples."""
    p = legendre_poly(n)
    for _ in range(m):
        p = _deriv(p)
    dp = _deriv(p)
    return tuple(float(c) for c in p), tuple(float(c) for c in dp)


def _polyval(coefs, x):
    return math.fsum(c*x**i for i, c in enumerate(coefs))


@lru_cache(maxsize=None)
def schmidt(n: int, m: int) -> float:
    if m == 0:
        return 1.0
    return math.sqrt(2.0*math.factorial(n-m)/math.factorial(n+m))


@lru_cache(maxsize=None)
def load_cof(path: str):
    with open(path) as f:
        lines = f.read().split('\n')
    head = lines[0].split()
    epoch = float(head[0])
    rows = []
    for ln in lines[1:]:
        t = ln.split()
        if len(t) < 6 or t[0].startswith('9999'):
            continue
        n, m = int(t[0]), int(t[1])
        rows.append((n, m, float(t[2]), float(t[3]), float(t[4]), float(t[5])))
    return epoch, head[1], tuple(rows)


def model_for(date: float) -> str:
    if date < 2020.0:
        return 'WMM2015'
    if date < 2025.0:
        return 'WMM2020'
    return 'WMM2025'


def synthesis(repo: str, lat_deg: float, lon_deg: float, h_km: float, date: float):
    """(X, Y, Z) in nT (north, east, down, geodetic), the model name and the geocentric colatitude in rad."""
    model = model_for(date)
    epoch, name, rows = load_cof(os.path.join(repo, 'ahrs', 'utils', model, 'WMM.COF'))
    dt = date - epoch
    phi = math.radians(lat_deg)
    lam = math.radians(lon_deg)
    e2 = (A_KM*A_KM - B_KM*B_KM)/(A_KM*A_KM)
    sphi = math.sin(phi)
    cphi = math.cos(phi)
    if abs(lat_deg) == 90.0:
        cphi = 0.0
        sphi = math.copysign(1.0, lat_deg)
    Rc = A_KM/math.sqrt(1.0 - e2*sphi*sphi)
    rho = (Rc + h_km)*cphi
    z = (Rc*(1.0 - e2) + h_km)*sphi
    r = math.hypot(rho, z)
    s, c = z/r, rho/r                    # sin, cos of the geocentric latitude
    ar = RE_KM/r
    Xs = Ys = Zs = 0.0
    tx, ty, tz = [], [], []
    for n, m, g0, h0, gd, hd in rows:
        if n > NMAX:
            continue
        g = g0 + dt*gd
        hh = h0 + dt*hd
        Q, dQ = q_poly(n, m)
        q = _polyval(Q, s)
        dq = _polyval(dQ, s)
        S = schmidt(n, m)
        cm = math.cos(m*lam)
        sm = math.sin(m*lam)
        # P = c^m q ; dP/dphi' = -m s c^(m-1) q + c^(m+1) dq ; P/c = c^(m-1) q
        P = S*(c**m)*q
        dP = S*((-m*s*(c**(m-1))*q if m > 0 else 0.0) + (c**(m+1))*dq)
        Pc = S*(c**(m-1))*q if m > 0 else 0.0
        f = ar**(n+2)
        tx.append(-f*(g*cm + hh*sm)*dP)
        ty.append(f*m*(g*sm - hh*cm)*Pc)
        tz.append(-(n+1)*f*(g*cm + hh*sm)*P)
    Xs, Ys, Zs = math.fsum(tx), math.fsum(ty), math.fsum(tz)
    # rotate from geocentric to geodetic: angle psi = phi' - phi
    sin_psi = s*cphi - c*sphi
    cos_psi = c*cphi + s*sphi
    X = Xs*cos_psi - Zs*sin_psi
    Z = Xs*sin_psi + Zs*cos_psi
    colat = math.atan2(c, abs(s))
    return (X, Ys, Z), model, epoch, colat


def selftest(repo: str):
    # official WMM2020 test value (WMM2020_TEST_VALUES.txt, first row): 2020.0, h=0, lat 80, lon 0
    (X, Y, Z), model, epoch, _ = synthesis(repo, 80.0, 0.0, 0.0, 2020.0)
    assert model == 'WMM2020' and epoch == 2020.0
    assert abs(X - 6570.4) < 0.06 and abs(Y - (-146.3)) < 0.06 and abs(Z - 54606.0) < 0.06, (X, Y, Z)
    (X, Y, Z), *_ = synthesis(repo, 0.0, 120.0, 0.0, 2020.0)
    assert abs(X - 39624.3) < 0.06 and abs(Y - 109.9) < 0.06 and abs(Z - (-10932.5)) < 0.06, (X, Y, Z)
    assert legendre_poly(2) == (Fraction(-1, 2), Fraction(0), Fraction(3, 2))
